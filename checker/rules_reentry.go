package main

import (
	"fmt"
	"go/constant"
	"go/token"
	"go/types"
	"sort"
	"strings"

	"golang.org/x/tools/go/ssa"
)

// C11.R7 — what a recursive cycle re-enters on.
//
// A recursion over the DOM is bounded because every call works on a piece of the caller's own
// (finite) tree. C11.R3 classifies the cycles; this rule looks at every single recursive edge and
// asks where its node arguments come from. Accepted sources:
//
//	subtree   the caller's own node parameters, children/siblings reached from them, slices built
//	          of those, clones of those, and what calls into the cycle returned (evaluated output)
//	file      nodes parsed from a file the cycle loaded — bounded by the include-depth guard (C11.R3)
//	slot      nodes kept in a SlotContent — the content the user of a component supplied. It is a
//	          different tree, so the edge needs its own argument: a <slot> inside that content must
//	          not be able to find the same content again. Accepted when the context handed to the
//	          evaluator has had the scope the content was found in removed (`ctx.SlotScope = nil`
//	          for content found through the component's scope, the reserved `__slotScope__` key
//	          shadowed with nil for content inherited from the page of a layout chain).
//
// Anything else (a field of some other long-lived object, a global, the result of an unknown call)
// is reported: the recursion continues on a tree nothing bounds.

type srcLeaf struct {
	kind   string // subtree | evaluated | file | slot | foreign
	v      ssa.Value
	detail string
}

type srcWalker struct {
	p    *Prog
	in   map[*ssa.Function]bool
	seen map[ssa.Value]bool
	out  []srcLeaf
	// cloneIsFresh: a clone is a new object (kind "fresh") instead of standing for what it was copied from
	cloneIsFresh bool
}

func htmlNodeStruct(t types.Type) bool {
	if pt, ok := t.Underlying().(*types.Pointer); ok {
		t = pt.Elem()
	}
	n, ok := t.(*types.Named)
	if !ok || n.Obj().Pkg() == nil {
		return false
	}
	path := n.Obj().Pkg().Path()
	return (path == "golang.org/x/net/html" && n.Obj().Name() == "Node") || strings.HasPrefix(path, "github.com/yuin/goldmark")
}

func nodeCarrying(t types.Type) bool {
	return isNodeLike(t) || isNodeSlice(t) || hasNodeType(t, 0)
}

func (w *srcWalker) leaf(kind string, v ssa.Value, detail string) {
	w.out = append(w.out, srcLeaf{kind, v, detail})
}

func (w *srcWalker) walk(v ssa.Value, depth int) {
	if v == nil || w.seen[v] {
		return
	}
	w.seen[v] = true
	if depth > 40 {
		w.leaf("foreign", v, "value flow too deep to follow")
		return
	}
	switch x := v.(type) {
	case *ssa.Parameter:
		w.leaf("subtree", v, "parameter "+x.Name())
	case *ssa.Const:
	case *ssa.Phi:
		for _, e := range x.Edges {
			w.walk(e, depth+1)
		}
	case *ssa.ChangeType:
		w.walk(x.X, depth+1)
	case *ssa.Convert:
		w.walk(x.X, depth+1)
	case *ssa.MakeInterface:
		w.walk(x.X, depth+1)
	case *ssa.ChangeInterface:
		w.walk(x.X, depth+1)
	case *ssa.TypeAssert:
		w.walk(x.X, depth+1)
	case *ssa.Slice:
		w.walk(x.X, depth+1)
	case *ssa.Index:
		w.walk(x.X, depth+1)
	case *ssa.Lookup:
		w.walk(x.X, depth+1)
	case *ssa.Extract:
		switch t := x.Tuple.(type) {
		case *ssa.Next:
			if r, ok := t.Iter.(*ssa.Range); ok {
				w.walk(r.X, depth+1)
				return
			}
			w.leaf("foreign", v, "iterator")
		case *ssa.TypeAssert:
			w.walk(t.X, depth+1)
		case *ssa.Lookup:
			w.walk(t.X, depth+1)
		case *ssa.Call:
			w.call(t, x.Index, v, depth)
		default:
			w.leaf("foreign", v, describeValue(v))
		}
	case *ssa.Call:
		w.call(x, 0, v, depth)
	case *ssa.MakeSlice, *ssa.Alloc, *ssa.MakeMap:
		// fresh container: what is stored into it
		w.elements(v, depth)
	case *ssa.FieldAddr, *ssa.IndexAddr:
		// an address used as a value (e.g. &arr[0] of a slice literal): its base
		w.addr(v, depth)
	case *ssa.FreeVar:
		if cell := cellOf(x); cell != nil {
			for _, st := range storesToCell(cell) {
				w.walk(st.Val, depth+1)
			}
			return
		}
		w.leaf("foreign", v, "captured variable "+x.Name())
	case *ssa.UnOp:
		if x.Op != token.MUL {
			w.leaf("foreign", v, describeValue(v))
			return
		}
		if cell := cellOf(x.X); cell != nil {
			sts := storesToCell(cell)
			for _, st := range sts {
				w.walk(st.Val, depth+1)
			}
			if len(sts) == 0 {
				w.elements(cell, depth)
			}
			return
		}
		w.addr(x.X, depth)
	case *ssa.Global:
		w.leaf("foreign", v, "package-level "+x.Name())
	default:
		w.leaf("foreign", v, describeValue(v))
	}
}

// addr: a load through this address.
func (w *srcWalker) addr(a ssa.Value, depth int) {
	switch x := a.(type) {
	case *ssa.FieldAddr:
		st := x.X.Type()
		if htmlNodeStruct(st) {
			// navigation inside a tree: FirstChild, NextSibling, Parent …
			w.walk(x.X, depth+1)
			return
		}
		name := typeShort(st) + "." + fieldName(x.X.Type(), x.Field)
		if pt, ok := st.Underlying().(*types.Pointer); ok {
			if n, ok := pt.Elem().(*types.Named); ok && n.Obj().Name() == "SlotContent" {
				w.leaf("slot", x, name)
				return
			}
		}
		// a field of a struct held in a local cell (context copies, composite literals): what was stored there
		if base, ok := x.X.(*ssa.Alloc); ok {
			found := false
			for _, u := range *base.Referrers() {
				if fa, ok := u.(*ssa.FieldAddr); ok && fa.Field == x.Field {
					for _, uu := range *fa.Referrers() {
						if st, ok := uu.(*ssa.Store); ok && st.Addr == ssa.Value(fa) {
							found = true
							w.walk(st.Val, depth+1)
						}
					}
				}
			}
			if found {
				return
			}
		}
		w.leaf("foreign", x, "field "+name)
	case *ssa.IndexAddr:
		w.walk(x.X, depth+1)
	case *ssa.Global:
		w.leaf("foreign", x, "package-level "+x.Name())
	case *ssa.UnOp, *ssa.Phi, *ssa.Parameter, *ssa.Call, *ssa.Extract:
		// *p where p is itself a value (pointer to node pointer): follow the pointer
		w.walk(x, depth+1)
	default:
		w.leaf("foreign", a, "load through "+describeValue(a))
	}
}

// elements: values stored into a fresh slice/array/map.
func (w *srcWalker) elements(c ssa.Value, depth int) {
	refs := c.Referrers()
	if refs == nil {
		return
	}
	for _, u := range *refs {
		switch x := u.(type) {
		case *ssa.IndexAddr:
			for _, uu := range *x.Referrers() {
				if st, ok := uu.(*ssa.Store); ok && st.Addr == ssa.Value(x) {
					w.walk(st.Val, depth+1)
				}
			}
		case *ssa.MapUpdate:
			if x.Map == c {
				w.walk(x.Value, depth+1)
			}
		case *ssa.Store:
			if x.Addr == c {
				w.walk(x.Val, depth+1)
			}
		case *ssa.Slice:
			// the slice view of the array: stores through it are found via IndexAddr on the slice
			w.elements(x, depth+1)
		}
	}
}

func (w *srcWalker) call(cl *ssa.Call, resIdx int, v ssa.Value, depth int) {
	name := calleeName(&cl.Call)
	if name == "builtin.append" {
		for _, a := range cl.Call.Args {
			w.walk(a, depth+1)
		}
		return
	}
	callees := w.p.Callees(cl)
	for _, callee := range callees {
		if w.in[callee] {
			w.leaf("evaluated", v, "result of "+shortName(callee))
			return
		}
	}
	callee := cl.Call.StaticCallee()
	switch {
	case strings.HasSuffix(name, "ParseTemplateBytes") || strings.Contains(name, "loadCachedWithFrontMatter") || strings.HasSuffix(name, "html.Parse") || strings.HasSuffix(name, "html.ParseFragment") || strings.HasSuffix(name, "html.ParseFragmentWithOptions"):
		w.leaf("file", v, "parsed by "+name)
		return
	case strings.HasSuffix(name, "(*vuego.SlotScope).GetSlot"):
		w.leaf("slot", v, "SlotScope.GetSlot")
		return
	case name == "(*sync.Pool).Get":
		if w.cloneIsFresh {
			w.leaf("fresh", v, "fresh object from a pool")
		} else {
			w.leaf("subtree", v, "fresh object from a pool")
		}
		return
	}
	if callee != nil && inModule(callee) && len(cl.Call.Args) > 0 && nodeCarrying(cl.Call.Args[0].Type()) && (isDeepCloner(w.p, callee) || strings.Contains(callee.Name(), "Clone")) {
		if w.cloneIsFresh {
			w.leaf("fresh", v, "clone made by "+shortName(callee))
			return
		}
		// a copy stands for what it was copied from
		w.walk(cl.Call.Args[0], depth+1)
		return
	}
	if callee != nil && inModule(callee) && len(callee.Blocks) > 0 {
		// a helper that returns nodes derived from its arguments (clone, filter, child list …): follow the
		// callee's results, with its parameters standing for the arguments
		sub := &srcWalker{p: w.p, in: w.in, seen: map[ssa.Value]bool{}, cloneIsFresh: w.cloneIsFresh}
		for _, r := range returnsOf(callee) {
			if resIdx < len(r.Results) {
				sub.walk(r.Results[resIdx], depth+1)
			}
		}
		for _, l := range sub.out {
			if prm, ok := l.v.(*ssa.Parameter); ok && l.kind == "subtree" && prm.Parent() == callee {
				for i, q := range callee.Params {
					if q == prm && i < len(cl.Call.Args) {
						w.walk(cl.Call.Args[i], depth+1)
					}
				}
				continue
			}
			if l.kind == "evaluated" || (l.kind == "subtree" && !w.cloneIsFresh) {
				// fresh nodes made inside the helper
				continue
			}
			w.out = append(w.out, l)
		}
		return
	}
	// library call: the result derives from node-carrying arguments, if any
	derived := false
	for _, a := range callArgs(&cl.Call) {
		if nodeCarrying(a.Type()) {
			derived = true
			w.walk(a, depth+1)
		}
	}
	if !derived {
		w.leaf("foreign", v, "result of "+name)
	}
}

func init() {
	register(&Rule{
		ID: "C11.R7", Props: []string{"C11", "C06"}, Min: 20,
		Doc: "every recursive edge re-enters on a bounded tree: the node arguments of each call that stays inside a recursive cycle come from the caller's own subtree (parameters, children, siblings, clones, evaluated output), from a file the cycle loaded (bounded by the include-depth guard), or from supplied slot content — and an edge that evaluates slot content hands on a context from which the scope that content was found in has been removed, so a <slot> inside the content cannot find the same content again",
		Run: func(p *Prog, c *Ctx) { runReentryRule(p, c) },
	})
}

func runReentryRule(p *Prog, c *Ctx) {
	sccs := p.recursiveSCCs()
	nEdges := 0
	for _, comp := range sccs {
		in := map[*ssa.Function]bool{}
		for _, f := range comp {
			in[f] = true
		}
		for _, f := range comp {
			k := 0
			for _, site := range callsIn(f) {
				rec := false
				for _, callee := range p.Callees(site) {
					if in[callee] {
						rec = true
					}
				}
				if !rec {
					continue
				}
				var nodeArgs []ssa.Value
				for _, a := range callArgs(site.Common()) {
					if nodeCarrying(a.Type()) {
						nodeArgs = append(nodeArgs, a)
					}
				}
				if len(nodeArgs) == 0 {
					continue
				}
				k++
				nEdges++
				key := fmt.Sprintf("%s → %s#%d", shortName(f), calleeName(site.Common()), k)
				w := &srcWalker{p: p, in: in, seen: map[ssa.Value]bool{}}
				for _, a := range nodeArgs {
					w.walk(a, 0)
				}
				kinds := map[string]bool{}
				var foreign []string
				for _, l := range w.out {
					kinds[l.kind] = true
					if l.kind == "foreign" {
						foreign = append(foreign, l.detail+" at "+p.instrPosOf(l.v))
					}
				}
				sort.Strings(foreign)
				switch {
				case len(foreign) > 0:
					c.fail(key, p.instrPos(site), "the recursion continues on nodes that are neither part of the caller's tree, nor parsed from a loaded file, nor supplied slot content: "+strings.Join(foreign, "; ")+" — nothing bounds the depth along this edge")
				case kinds["slot"]:
					ok, why := slotEdgeBounded(p, site)
					c.check(ok, key, p.instrPos(site), "supplied slot content, evaluated with its own scope removed: "+why, "supplied slot content is evaluated with a context in which a <slot> of the same name finds this very content again: content that contains such a <slot> recurses until the stack overflows ("+why+")")
				default:
					var ks []string
					for k := range kinds {
						ks = append(ks, k)
					}
					sort.Strings(ks)
					c.ok(key, p.instrPos(site), "re-enters on: "+strings.Join(ks, ", "))
				}
			}
		}
	}
	c.ok("edges", "-", fmt.Sprintf("%d recursive edges with node arguments in %d cycles examined", nEdges, len(sccs)))
}

func (p *Prog) instrPosOf(v ssa.Value) string {
	if in, ok := v.(ssa.Instruction); ok {
		return p.instrPos(in)
	}
	return p.pos(v.Pos())
}

// slotEdgeBounded: the call evaluates supplied slot content. The VueContext it passes must have had
// the scope the content was found in removed on every path to the call:
//   - content found through the component's slot scope (parameter / ctx.SlotScope): a store of nil
//     into the SlotScope field of the context copy dominates the call and no later store undoes it;
//   - content found through the inherited scope (the `__slotScope__` entry of the environment): a
//     `stack.Set("__slotScope__", nil)` dominates the call.
func slotEdgeBounded(p *Prog, site ssa.CallInstruction) (bool, string) {
	fn := site.Parent()
	// the context argument
	var ctxArg ssa.Value
	for _, a := range callArgs(site.Common()) {
		if isNamed(a.Type(), modPath, "VueContext") {
			ctxArg = a
		}
	}
	if ctxArg == nil {
		return false, "the call passes no VueContext"
	}
	// where was the content found?
	w := &srcWalker{p: p, in: map[*ssa.Function]bool{}, seen: map[ssa.Value]bool{}}
	for _, a := range callArgs(site.Common()) {
		if nodeCarrying(a.Type()) {
			w.walk(a, 0)
		}
	}
	inherited, own := false, false
	for _, l := range w.out {
		if l.kind != "slot" {
			continue
		}
		// l.v is the FieldAddr of the SlotContent field: its base comes from GetSlot(receiver)
		fa, ok := l.v.(*ssa.FieldAddr)
		if !ok {
			own = true
			continue
		}
		for _, o := range p.origins(fa.X, OriginOpts{}) {
			cl, ok := o.(*ssa.Call)
			if !ok || !strings.HasSuffix(calleeName(&cl.Call), "(*vuego.SlotScope).GetSlot") {
				own = true
				continue
			}
			fromEnv := false
			for _, ro := range p.origins(cl.Call.Args[0], OriginOpts{}) {
				if _, isLookup := ro.(*ssa.Lookup); isLookup {
					fromEnv = true
				}
				if ex, ok := ro.(*ssa.Extract); ok {
					if _, isLookup := ex.Tuple.(*ssa.Lookup); isLookup {
						fromEnv = true
					}
				}
			}
			if fromEnv {
				inherited = true
			} else {
				own = true
			}
		}
	}
	var notes []string
	if own {
		// ctx argument: a load of the local context cell; the last store to its SlotScope field before the call is nil
		ld, ok := ctxArg.(*ssa.UnOp)
		if !ok || ld.Op != token.MUL {
			return false, "the context passed on is not the function's own context copy"
		}
		cell, ok := ld.X.(*ssa.Alloc)
		if !ok {
			return false, "the context passed on is not the function's own context copy"
		}
		var stores []*ssa.Store
		for _, u := range *cell.Referrers() {
			fa, ok := u.(*ssa.FieldAddr)
			if !ok || !fieldIs(fieldVar(fa), "SlotScope") {
				continue
			}
			for _, uu := range *fa.Referrers() {
				if st, ok := uu.(*ssa.Store); ok && st.Addr == ssa.Value(fa) {
					stores = append(stores, st)
				}
			}
		}
		// the scope handed on: nil, or the scope that was current where the component was included — the
		// `outer` link of the scope the content was found in (strictly older: see outerLinksAcyclic)
		removes := func(v ssa.Value) bool {
			if isNilConst(v) {
				return true
			}
			if f := loadedField(v); f != nil && fieldIs(f, "outer") {
				return true
			}
			return false
		}
		cleared := false
		for _, st := range stores {
			if removes(st.Val) && dominates(st, site) {
				cleared = true
			}
		}
		if !cleared {
			return false, "no `ctx.SlotScope = nil` (or `= scope.outer`) dominates the call in " + shortName(fn)
		}
		for _, st := range stores {
			if !removes(st.Val) && canFollow(st, site) {
				return false, "ctx.SlotScope is assigned again before the call"
			}
		}
		if ok, why := p.outerLinksAcyclic(); !ok {
			return false, why
		}
		notes = append(notes, "the context handed on carries nil or the found scope's outer scope (outer links only point to older scopes)")
	}
	if inherited {
		hidden := false
		for _, s2 := range callsIn(fn) {
			if calleeName(s2.Common()) != "(*vuego.Stack).Set" || len(s2.Common().Args) < 3 {
				continue
			}
			k, ok := constString(s2.Common().Args[1])
			if !ok || k != "__slotScope__" {
				continue
			}
			val := s2.Common().Args[2]
			if mi, ok := val.(*ssa.MakeInterface); ok {
				val = mi.X
			}
			if isNilConst(val) && dominates(s2, site) {
				hidden = true
			}
		}
		if !hidden {
			return false, "content inherited through `__slotScope__` is evaluated while that entry is still visible: no `stack.Set(\"__slotScope__\", nil)` dominates the call in " + shortName(fn)
		}
		notes = append(notes, "the inherited `__slotScope__` entry is shadowed with nil")
	}
	if !own && !inherited {
		return false, "cannot tell in which scope the content was found"
	}
	return true, strings.Join(notes, "; ")
}

func init() {
	register(&Rule{
		ID: "C07.R8", Props: []string{"C07", "C11"}, Min: 4,
		Doc: "a circular layout chain is reported when a file repeats, not after the maximum number of rounds: every round embeds the previous output as `content` (possibly more than once), so the work of a cycle that is only cut off by the depth limit grows geometrically. The chain loop keeps a set of the files it has rendered: a map created before the loop, looked up with the name of the file about to be loaded in a guard inside the loop, before the render call, whose hit edge returns an error, and updated with that name in every round",
		Run: func(p *Prog, c *Ctx) {
			fn := p.MustFn("(*vuego.template).layout")
			var render, load ssa.CallInstruction
			for _, site := range p.callsToRole(fn, "(*vuego.template).renderWithoutLayout") {
				render = site
			}
			for _, site := range callsIn(fn) {
				if calleeName(site.Common()) == "(*vuego.template).Load" {
					load = site
				}
			}
			if render == nil || load == nil {
				undecided("layout: no Load / renderWithoutLayout call")
			}
			h := loopHeaderOf(render.Block())
			if h == nil {
				undecided("layout: render call not in a loop")
			}
			loop := loopBlocks(h)
			file := load.Common().Args[len(load.Common().Args)-1]
			sameFile := func(v ssa.Value) bool { return v == file || sameValue(v, file) }
			// candidate sets: maps made outside the loop
			var found *ssa.MakeMap
			why := "no map keyed by the file name is consulted before a link is rendered"
			eachInstr(fn, func(in ssa.Instruction) {
				mm, ok := in.(*ssa.MakeMap)
				if !ok || loop[mm.Block()] || found != nil {
					return
				}
				isSet := func(v ssa.Value) bool {
					for _, o := range p.origins(v, OriginOpts{}) {
						if o == ssa.Value(mm) {
							return true
						}
					}
					return false
				}
				looked, updated := false, false
				eachInstr(fn, func(x ssa.Instruction) {
					switch y := x.(type) {
					case *ssa.Lookup:
						if !isSet(y.X) || !sameFile(y.Index) || !loop[y.Block()] {
							return
						}
						// the looked-up value decides a branch that dominates the render call and returns an error when it is set
						var val ssa.Value = y
						if y.CommaOk {
							val = nil
							for _, u := range *y.Referrers() {
								if ex, ok := u.(*ssa.Extract); ok {
									if val == nil || ex.Index == 0 {
										val = ex
									}
								}
							}
						}
						if val == nil {
							return
						}
						for _, b := range fn.Blocks {
							ifi, isIf := b.Instrs[len(b.Instrs)-1].(*ssa.If)
							if !isIf || !loop[b] || !blocksAfter(b)[render.Block()] {
								continue
							}
							dep := false
							walkCond(ifi.Cond, func(v ssa.Value) {
								if v == val {
									dep = true
								}
							})
							if ph, isPhi := ifi.Cond.(*ssa.Phi); isPhi {
								for _, e := range ph.Edges {
									if e == val {
										dep = true
									}
								}
							}
							if !dep {
								continue
							}
							for k, s := range b.Succs {
								if blockReturnsNonNilError(s) && !(b.Succs[1-k] == s) {
									looked = true
								}
							}
						}
					case *ssa.MapUpdate:
						if isSet(y.Map) && sameFile(y.Key) && loop[y.Block()] && y.Block().Dominates(render.Block()) {
							updated = true
						}
					}
				})
				switch {
				case looked && updated:
					found = mm
				case looked:
					why = "the set of rendered files is consulted but not updated in every round"
				case updated:
					why = "the set of rendered files is updated but no hit leads to an error before the link is rendered"
				}
			})
			c.check(found != nil, "layout: a repeated file ends the chain with an error", p.instrPos(render), "set of rendered files: created before the loop, consulted (hit → error) and updated before every render", "the chain loop does not notice a file that comes up again: a circular chain runs until the depth limit, and since every round embeds the previous output (a layout may use `content` twice) the output of a two-file cycle doubles a hundred times before the limit is reached — "+why)
			c.ok("layout: loop", p.instrPos(load), "Load/render loop found")
			c.ok("layout: file name", p.instrPos(load), "file name passed to Load: "+describeValue(file))
			if found == nil {
				return
			}
			// Which rounds are recorded. The loop's `first round` flag is a φ of the header that is true on
			// entry and false on every back edge; what a round stores under its file name is evaluated for
			// flag = false (every later round must be recorded, or a cycle is not noticed) and for
			// flag = true (the page itself is not a layout of the chain: when it comes up again as its own
			// default layout that is one legitimate application, not a cycle).
			var flag *ssa.Phi
			for _, in := range h.Instrs {
				ph, ok := in.(*ssa.Phi)
				if !ok {
					break
				}
				if b, ok := ph.Type().Underlying().(*types.Basic); !ok || b.Kind() != types.Bool {
					continue
				}
				good := true
				// the value an edge brings: a constant, possibly merged from several assignments of the same constant
				var constOf func(v ssa.Value, d int) (bool, bool)
				constOf = func(v ssa.Value, d int) (bool, bool) {
					switch x := v.(type) {
					case *ssa.Const:
						if x.Value != nil && x.Value.Kind() == constant.Bool {
							return constant.BoolVal(x.Value), true
						}
					case *ssa.Phi:
						if d > 4 || x == ph {
							return false, false
						}
						res, have := false, false
						for _, e := range x.Edges {
							r, ok := constOf(e, d+1)
							if !ok || (have && r != res) {
								return false, false
							}
							res, have = r, true
						}
						return res, have
					}
					return false, false
				}
				for i, e := range ph.Edges {
					val, isConst := constOf(e, 0)
					if !isConst {
						good = false
						break
					}
					if val != !loop[h.Preds[i]] {
						good = false
					}
				}
				if good {
					flag = ph
				}
			}
			if flag == nil {
				c.ok("layout: rounds recorded", p.instrPos(load), "no first-round flag in the loop: every round is treated alike")
				return
			}
			var eval func(v ssa.Value, first bool, depth int) (val, known bool)
			eval = func(v ssa.Value, first bool, depth int) (bool, bool) {
				if depth > 6 {
					return false, false
				}
				switch x := v.(type) {
				case *ssa.Const:
					if x.Value != nil && x.Value.Kind() == constant.Bool {
						return constant.BoolVal(x.Value), true
					}
				case *ssa.Phi:
					if x == flag {
						return first, true
					}
					res, have := false, false
					for _, e := range x.Edges {
						r, k := eval(e, first, depth+1)
						if !k || (have && r != res) {
							return false, false
						}
						res, have = r, true
					}
					return res, have
				case *ssa.UnOp:
					if x.Op == token.NOT {
						r, k := eval(x.X, first, depth+1)
						return !r, k
					}
				}
				return false, false
			}
			dependsOnName := func(v ssa.Value) bool {
				dep := false
				seen := map[ssa.Value]bool{}
				var walk func(v ssa.Value)
				walk = func(v ssa.Value) {
					if seen[v] || dep {
						return
					}
					seen[v] = true
					if sameFile(v) || loadedField(v) != nil {
						dep = true
						return
					}
					if in, ok := v.(ssa.Instruction); ok {
						for _, op := range in.Operands(nil) {
							if *op != nil {
								walk(*op)
							}
						}
					}
				}
				walk(v)
				return dep
			}
			isSet := func(v ssa.Value) bool {
				for _, o := range p.origins(v, OriginOpts{}) {
					if o == ssa.Value(found) {
						return true
					}
				}
				return false
			}
			laterMarked, laterWhy, laterUnknown := false, "no update of the set happens in a round that is not the first", false
			firstMarked := ""
			var at ssa.Instruction = load
			eachInstr(fn, func(x ssa.Instruction) {
				mu, ok := x.(*ssa.MapUpdate)
				if !ok || !isSet(mu.Map) || !sameFile(mu.Key) || !loop[mu.Block()] {
					return
				}
				at = mu
				onlyFirst := enteredOnlyUnder(mu.Block(), func(cond ssa.Value, want bool) bool {
					r, k := eval(cond, true, 0)
					return k && r == want && func() bool { r2, k2 := eval(cond, false, 0); return k2 && r2 != want }()
				})
				onlyLater := enteredOnlyUnder(mu.Block(), func(cond ssa.Value, want bool) bool {
					r, k := eval(cond, false, 0)
					return k && r == want && func() bool { r2, k2 := eval(cond, true, 0); return k2 && r2 != want }()
				})
				if !onlyFirst {
					switch val, known := eval(mu.Value, false, 0); {
					case known && val:
						laterMarked = true
					case known:
						laterWhy = "what is stored for a later round is `false`"
					case dependsOnName(mu.Value):
						laterWhy = "whether a later round is recorded depends on the file's name (" + describeValue(mu.Value) + ") and not on the round: a file for which it is false goes round unrecorded"
					default:
						laterUnknown = true
					}
				}
				if !onlyLater {
					if val, known := eval(mu.Value, true, 0); known && val {
						firstMarked = p.instrPos(mu)
					}
				}
			})
			if !laterMarked && laterUnknown {
				undecided("layout: cannot evaluate what the set of rendered files records for a later round")
			}
			c.check(laterMarked, "layout: every round after the first is recorded", p.instrPos(at), "stored value is true whenever the first-round flag is false", "a layout that was rendered is not always recorded in the set of rendered files — "+laterWhy+": a cycle through it is only cut by the depth limit, after the output has doubled in every round")
			c.check(firstMarked == "", "layout: the page itself is not recorded as a layout", p.instrPos(at), "nothing (or false) is stored in the first round", "the page is recorded like a layout of the chain (at "+firstMarked+"): when the page is layouts/base.vuego itself and names no layout, its one legitimate application as the default layout is reported as a circular chain")
		},
	})
}

func init() {
	register(&Rule{
		ID: "C01.R8", Props: []string{"C01", "C14"}, Min: 3,
		Doc: "nothing evaluated is put where the attribute pass will interpolate it: the directive handlers that run on an element before its attributes are interpolated (v-html, v-text, v-show) store no value that came from data (expression evaluator, scope lookup, pipe, interpolator) into an attribute of that element — except the two internal carrier attributes, which the attribute pass skips (C01.R1). A style or class rewritten by such a handler is assembled from template text and constants only, so every attribute value is interpolated exactly once",
		Run: func(p *Prog, c *Ctx) {
			ev := p.MustFn("(*vuego.Vue).evaluate")
			var attrPass ssa.CallInstruction
			for _, site := range callsIn(ev) {
				if calleeName(site.Common()) == "(*vuego.Vue).evalAttributes" {
					attrPass = site
				}
			}
			if attrPass == nil {
				undecided("evaluate: no call of evalAttributes")
			}
			var node ssa.Value
			for _, a := range attrPass.Common().Args {
				if isNamed(a.Type(), "golang.org/x/net/html", "Node") {
					node = a
				}
			}
			if node == nil {
				undecided("evaluate: evalAttributes takes no node")
			}
			// handlers that receive the same node earlier
			var handlers []*ssa.Function
			for _, site := range callsIn(ev) {
				callee := site.Common().StaticCallee()
				if callee == nil || !inModule(callee) || site == attrPass || !dominates(site, attrPass) {
					continue
				}
				if pk := funcPkg(callee); pk == nil || pk.Path() != modPath {
					continue
				}
				for _, a := range site.Common().Args {
					if a == node || sameValue(a, node) {
						handlers = append(handlers, callee)
					}
				}
			}
			c.check(len(handlers) > 0, "evaluate: directive handlers before the attribute pass", p.instrPos(attrPass), fmt.Sprintf("%d handler(s) run on the element first", len(handlers)), "no handler runs before the attribute pass")
			if len(handlers) == 0 {
				return
			}
			scope := p.Cone(handlers...)
			// never descend into the evaluator proper or the attribute pass
			for f := range scope {
				switch shortName(f) {
				case "(*vuego.Vue).evaluate", "(*vuego.Vue).evalAttributes":
					delete(scope, f)
				}
			}
			t := newTaint(p)
			t.Scope = func(fn *ssa.Function) bool { return scope[fn] }
			// through the module's own small structs (parsed style declarations …), not through DOM nodes or the context
			t.FollowField = func(fv *types.Var) bool {
				if fv.Pkg() == nil || !strings.HasPrefix(fv.Pkg().Path(), modPath) {
					return false
				}
				switch fv.Name() {
				case "stack", "seen", "SlotScope":
					return false
				}
				return isString(fv.Type())
			}
			isAttrSetter := func(callee *ssa.Function) bool {
				if callee == nil || !inModule(callee) || len(callee.Params) != 3 {
					return false
				}
				return isNamed(callee.Params[0].Type(), "golang.org/x/net/html", "Node") && isString(callee.Params[1].Type()) && isString(callee.Params[2].Type()) && strings.HasSuffix(callee.Name(), "Attr")
			}
			t.Sink = func(u ssa.Instruction, v ssa.Value) string {
				switch x := u.(type) {
				case ssa.CallInstruction:
					callee := x.Common().StaticCallee()
					if isAttrSetter(callee) && len(x.Common().Args) == 3 && x.Common().Args[2] == v {
						if k, ok := constString(x.Common().Args[1]); ok && (k == carrierHTML || k == carrierText) {
							return ""
						}
						k, _ := constString(x.Common().Args[1])
						return "stored into attribute \"" + k + "\" through " + shortName(callee)
					}
				case *ssa.Store:
					if x.Val != v {
						return ""
					}
					if fv := fieldVar(x.Addr); fv != nil && fv.Name() == "Val" && fv.Pkg() != nil && fv.Pkg().Path() == "golang.org/x/net/html" && !isAttrSetter(x.Parent()) {
						// html.Attribute{Key: <carrier>, Val: v}: the key stored into the same struct
						if fa, ok := x.Addr.(*ssa.FieldAddr); ok {
							if refs := fa.X.Referrers(); refs != nil {
								for _, r := range *refs {
									kfa, ok := r.(*ssa.FieldAddr)
									if !ok || fieldName(kfa.X.Type(), kfa.Field) != "Key" {
										continue
									}
									for _, kr := range *kfa.Referrers() {
										if kst, ok := kr.(*ssa.Store); ok && kst.Addr == ssa.Value(kfa) {
											if k, ok := constString(kst.Val); ok && (k == carrierHTML || k == carrierText) {
												return ""
											}
										}
									}
								}
							}
						}
						return "stored into an attribute value"
					}
				}
				return ""
			}
			// an attribute setter is a sink as a whole: do not follow the value into it
			t.StopCall = func(site ssa.CallInstruction, arg ssa.Value) bool {
				return isAttrSetter(site.Common().StaticCallee())
			}
			srcs := 0
			for _, fn := range sortedFuncs(scope) {
				for _, site := range callsIn(fn) {
					cv, ok := site.(*ssa.Call)
					if !ok {
						continue
					}
					switch calleeName(site.Common()) {
					case "(*vuego.ExprEvaluator).Eval", "(*vuego.Stack).Resolve", "(*vuego.Stack).Lookup", "(*vuego.Vue).evalPipe", "(*vuego.Vue).interpolate", "(*vuego.Vue).evalBoundAttribute":
						srcs++
						t.Seed(cv, calleeName(site.Common())+" at "+p.instrPos(site))
						if refs := cv.Referrers(); refs != nil {
							for _, r := range *refs {
								if ex, ok := r.(*ssa.Extract); ok && ex.Index == 0 {
									t.Seed(ex, calleeName(site.Common())+" at "+p.instrPos(site))
								}
							}
						}
					}
				}
			}
			// the sink test must also see direct uses: run with sinks checked before StopCall
			t.Run()
			c.check(srcs > 0, "handlers evaluate data", "-", fmt.Sprintf("%d evaluated values followed in %d functions", srcs, len(scope)), "no evaluated value found in the handlers")
			for _, h := range t.Hits {
				c.fail(shortName(h.At.Parent())+": "+h.What, p.instrPos(h.At), "a value that came from data ("+shortWhy(h.Why)+") is "+h.What+" of the element before its attributes are interpolated: the attribute pass interpolates it again, so {{ }} inside the data is evaluated against the scope")
			}
			c.ok("handlers", p.instrPos(attrPass), fmt.Sprintf("%d handlers; their stores into the element's attributes take template text and constants only", len(handlers)))
		},
	})
}

func init() {
	register(&Rule{
		ID: "C02.R5", Props: []string{"C02"}, Min: 2,
		Doc: "a source that contains `</html>` anywhere is parsed as a document: in the template parser the branch that calls html.Parse is taken whenever a position-independent containment test (bytes/strings.Contains or Index ≥ 0 of the parameter for a constant containing `</html>`) is true — the test is reached for every input (conditions before it may only add further ways into the document branch) and its true edge leads to html.Parse without another test. A prefix/suffix form of the test sends documents with anything after `</html>` (a trailing comment) to the fragment parser, which drops the doctype and the html/head/body elements with their attributes",
		Run: func(p *Prog, c *Ctx) {
			fn := p.MustFn("parser.ParseTemplateBytes")
			var parse ssa.CallInstruction
			for _, site := range callsIn(fn) {
				if nm := calleeName(site.Common()); nm == "golang.org/x/net/html.Parse" || nm == "golang.org/x/net/html.ParseWithOptions" {
					parse = site
				}
			}
			c.check(parse != nil, "parser: documents go to html.Parse", p.pos(fn.Pos()), "html.Parse call present", "the template parser never calls html.Parse: full documents are parsed as fragments")
			if parse == nil {
				return
			}
			fromParam := func(v ssa.Value) bool {
				for _, o := range p.origins(v, OriginOpts{ThroughCall: func(cl *ssa.Call) []ssa.Value {
					switch calleeName(&cl.Call) {
					case "bytes.ToLower", "strings.ToLower", "bytes.ToUpper", "strings.ToUpper":
						return cl.Call.Args[:1]
					}
					return nil
				}}) {
					if _, ok := o.(*ssa.Parameter); ok {
						return true
					}
				}
				return false
			}
			var hasMarker func(v ssa.Value, d int) bool
			hasMarker = func(v ssa.Value, d int) bool {
				for _, o := range p.origins(v, OriginOpts{}) {
					if s, ok := constString(o); ok && strings.Contains(strings.ToLower(s), "</html>") {
						return true
					}
					// a package-level variable initialised with the marker
					if ld, ok := o.(*ssa.UnOp); ok && d < 2 {
						if g, ok := ld.X.(*ssa.Global); ok {
							if init := g.Pkg.Func("init"); init != nil {
								found := false
								eachInstr(init, func(in ssa.Instruction) {
									if st, ok := in.(*ssa.Store); ok && st.Addr == ssa.Value(g) && hasMarker(st.Val, d+1) {
										found = true
									}
								})
								if found {
									return true
								}
							}
						}
					}
				}
				return false
			}
			// containment: the condition (true) means "the source contains the marker somewhere"
			isContainment := func(cnd ssa.Value, want bool) bool {
				if cl, ok := cnd.(*ssa.Call); ok && want {
					switch calleeName(&cl.Call) {
					case "bytes.Contains", "strings.Contains":
						return fromParam(cl.Call.Args[0]) && hasMarker(cl.Call.Args[1], 0)
					}
				}
				if op, x, y, ok := relationOnEdge(cnd, want); ok {
					cl, isCall := x.(*ssa.Call)
					k, isK := constInt(y)
					if isCall && isK {
						switch calleeName(&cl.Call) {
						case "bytes.Index", "strings.Index", "bytes.LastIndex", "strings.LastIndex":
							if fromParam(cl.Call.Args[0]) && hasMarker(cl.Call.Args[1], 0) {
								return (op == token.GEQ && k == 0) || (op == token.GTR && k == -1) || (op == token.NEQ && k == -1)
							}
						}
					}
				}
				return false
			}
			leadsToParse := func(b *ssa.BasicBlock) bool {
				for d := 0; d < 4 && b != nil; d++ {
					if b == parse.Block() {
						return true
					}
					if len(b.Succs) != 1 {
						return false
					}
					b = b.Succs[0]
				}
				return false
			}
			ok, why := false, "no containment test for `</html>` decides the document branch"
			b := fn.Blocks[0]
			for steps := 0; steps < 16 && b != nil; steps++ {
				ifi, isIf := b.Instrs[len(b.Instrs)-1].(*ssa.If)
				if !isIf {
					if len(b.Succs) == 1 {
						b = b.Succs[0]
						continue
					}
					break
				}
				cnd, flip := stripNot(ifi.Cond)
				tk, fk := 0, 1
				if flip {
					tk, fk = 1, 0
				}
				if isContainment(cnd, true) {
					if leadsToParse(b.Succs[tk]) {
						ok = true
					} else {
						why = "the containment test does not lead straight to html.Parse"
					}
					break
				}
				// the same test written the other way round: `Index(src, marker) < 0` → fragment, else document
				if isContainment(cnd, false) {
					if leadsToParse(b.Succs[fk]) {
						ok = true
					} else {
						why = "the containment test does not lead straight to html.Parse"
					}
					break
				}
				// another condition in front of it: acceptable only as a further way into the document branch
				if leadsToParse(b.Succs[tk]) {
					b = b.Succs[fk]
					continue
				}
				if leadsToParse(b.Succs[fk]) {
					b = b.Succs[tk]
					continue
				}
				why = "a condition at " + p.instrPos(ifi) + " that is not a containment test decides whether the source is a document"
				break
			}
			c.check(ok, "parser: a source containing </html> is a document", p.instrPos(parse), "containment test → html.Parse, reached for every input", "a template that contains `</html>` can be handed to the fragment parser ("+why+"): the doctype and the html, head and body elements with their attributes disappear from the output")
		},
	})
}

func init() {
	register(&Rule{
		ID: "C03.R6", Props: []string{"C03", "C09", "C10", "C11", "C04", "C16"}, Min: 8,
		Doc: "the evaluator's output is made of fresh nodes only: every node list an evaluator function returns consists of nodes allocated or cloned during this evaluation and of what other evaluator calls returned — never a node of the template it was given. A template node that is handed through keeps its sibling links into the unevaluated template (the serialiser walks on into branches that were decided not to render) and is re-linked by its new parent (the cached template is modified while other renders read it)",
		Run: func(p *Prog, c *Ctx) {
			cone := p.evaluatorCone()
			n := 0
			for _, fn := range sortedFuncs(cone) {
				if fn.Signature.Results().Len() == 0 || !isNodeSlice(fn.Signature.Results().At(0).Type()) {
					continue
				}
				if !strings.HasPrefix(typeShort(recvType(fn)), "*vuego.Vue") {
					continue
				}
				in := map[*ssa.Function]bool{}
				for f := range cone {
					if f.Signature.Results().Len() > 0 && isNodeSlice(f.Signature.Results().At(0).Type()) && strings.HasPrefix(typeShort(recvType(f)), "*vuego.Vue") {
						in[f] = true
					}
				}
				for i, r := range returnsOf(fn) {
					n++
					w := &srcWalker{p: p, in: in, seen: map[ssa.Value]bool{}, cloneIsFresh: true}
					w.walk(r.Results[0], 0)
					var bad []string
					for _, l := range w.out {
						switch l.kind {
						case "evaluated", "fresh":
						default:
							bad = append(bad, l.kind+": "+l.detail+" at "+p.instrPosOf(l.v))
						}
					}
					sort.Strings(bad)
					bad = uniqStrings(bad)
					key := fmt.Sprintf("%s: return#%d", shortName(fn), i+1)
					// handing the caller's own list back untouched is not output: `return nodes` for an empty list, or for
					// a list that is not rooted in a <template> element (callers branch on that; C01.R1)
					if prm, isParam := r.Results[0].(*ssa.Parameter); isParam && len(bad) > 0 {
						inTemplateBranch := guardedBy(r.Block(), func(cnd ssa.Value, want bool) bool {
							_, s, ok := eqConstCond(cnd, want)
							return ok && s == "template"
						})
						if !inTemplateBranch {
							c.ok(key, p.instrPos(r), "hands the caller's own list `"+prm.Name()+"` back untouched (empty, or not rooted in a <template>)")
							continue
						}
					}
					if len(bad) == 0 {
						c.ok(key, p.instrPos(r), "fresh nodes and evaluator output only")
						continue
					}
					c.fail(key, p.instrPos(r), "a node of the template that was handed in is returned as output ("+strings.Join(bad, "; ")+"): it still carries its links into the unevaluated template, and its new parent re-links it, which writes into the shared template")
				}
			}
			c.ok("returns", "-", fmt.Sprintf("%d returns of evaluator functions examined", n))
		},
	})
}

func uniqStrings(in []string) []string {
	var out []string
	for i, s := range in {
		if i == 0 || s != in[i-1] {
			out = append(out, s)
		}
	}
	return out
}

func init() {
	register(&Rule{
		ID: "C03.R7", Props: []string{"C03", "C13"}, Min: 4,
		Doc: "a condition is decided by the expression evaluator on the whole expression; everything else is a fallback: in the truthiness positions (v-if / v-else-if, v-show, :class / :style object values) a scope path lookup (Stack.Resolve) or an evaluation of only a part of the expression (the text after a leading `!`) is reached solely on the failing edge of an evaluator call on the whole expression. A path lookup treats `a[i]` as the literal key \"i\", and `!(rest)` is not `!a && b`, so taking such a shortcut first gives the same expression a different value in one position",
		Run: func(p *Prog, c *Ctx) {
			n := 0
			for _, name := range []string{"(*vuego.Vue).evalConditionExpr", "(*vuego.Vue).evalVShow", "vuego.parseObjectPairs"} {
				fn := p.Fn(name)
				if fn == nil {
					fn = p.Fn("(*vuego.Vue).parseObjectPairs")
				}
				if fn == nil {
					undecided("anchor function %s not found", name)
				}
				// reaches: walking v backwards through trimming / slicing / locals arrives at target; sliced tells
				// whether a proper part was taken on the way
				var reaches func(v, target ssa.Value, sliced bool, d int, seen map[ssa.Value]bool) (bool, bool)
				reaches = func(v, target ssa.Value, sliced bool, d int, seen map[ssa.Value]bool) (bool, bool) {
					if v == nil || d > 14 || seen[v] {
						return false, false
					}
					seen[v] = true
					if v == target || sameValue(v, target) {
						return true, sliced
					}
					switch x := v.(type) {
					case *ssa.Slice:
						return reaches(x.X, target, true, d+1, seen)
					case *ssa.Phi:
						for _, e := range x.Edges {
							if ok, sl := reaches(e, target, sliced, d+1, seen); ok {
								return true, sl
							}
						}
					case *ssa.Extract:
						return reaches(x.Tuple, target, sliced, d+1, seen)
					case *ssa.Call:
						switch calleeName(&x.Call) {
						case "strings.TrimSpace", "helpers.NormalizeComparisonOperators":
							return reaches(x.Call.Args[0], target, sliced, d+1, seen)
						case "strings.TrimPrefix", "strings.TrimLeft", "strings.CutPrefix", "strings.TrimSuffix":
							return reaches(x.Call.Args[0], target, true, d+1, seen)
						}
					case *ssa.UnOp:
						if cell := cellOf(x.X); cell != nil {
							for _, st := range storesToCell(cell) {
								if ok, sl := reaches(st.Val, target, sliced, d+1, seen); ok {
									return true, sl
								}
							}
						}
					}
					return false, false
				}
				var evals []*ssa.Call
				var others []ssa.CallInstruction
				for _, site := range callsIn(fn) {
					cv, ok := site.(*ssa.Call)
					if !ok {
						continue
					}
					switch calleeName(site.Common()) {
					case "(*vuego.ExprEvaluator).Eval":
						evals = append(evals, cv)
					case "(*vuego.Stack).Resolve", "(*vuego.Stack).Lookup":
						others = append(others, site)
					}
				}
				// an evaluator call on a proper part of another evaluator call's text is secondary
				var wholeEvals []*ssa.Call
				for _, e := range evals {
					secondary := false
					for _, e2 := range evals {
						if e2 == e {
							continue
						}
						if ok, sliced := reaches(e.Call.Args[1], e2.Call.Args[1], false, 0, map[ssa.Value]bool{}); ok && sliced {
							secondary = true
						}
					}
					if secondary {
						others = append(others, e)
					} else {
						wholeEvals = append(wholeEvals, e)
					}
				}
				short := strings.TrimPrefix(strings.TrimPrefix(name, "(*vuego.Vue)."), "vuego.")
				if len(wholeEvals) == 0 && name != "(*vuego.Vue).evalConditionExpr" {
					// the position hands the whole text to evalConditionExpr, which is judged on its own
					deleg := false
					for _, site := range callsIn(fn) {
						if calleeName(site.Common()) == "(*vuego.Vue).evalConditionExpr" {
							deleg = true
						}
					}
					if deleg {
						c.ok(short+": evaluates the whole expression", p.pos(fn.Pos()), "through evalConditionExpr")
						continue
					}
				}
				c.check(len(wholeEvals) > 0, short+": evaluates the whole expression", p.pos(fn.Pos()), fmt.Sprintf("%d evaluator call(s) on the whole expression", len(wholeEvals)), "no call of the expression evaluator on the whole expression")
				for _, site := range others {
					n++
					failed := func(cnd ssa.Value, want bool) bool {
						op, x, y, ok := relationOnEdge(cnd, want)
						if !ok || !isNilConst(y) || op != token.NEQ {
							return false
						}
						ex, isEx := x.(*ssa.Extract)
						if !isEx {
							return false
						}
						for _, we := range wholeEvals {
							if ex.Tuple == ssa.Value(we) {
								return true
							}
						}
						return false
					}
					what := "scope path lookup"
					if calleeName(site.Common()) == "(*vuego.ExprEvaluator).Eval" {
						what = "evaluation of a part of the expression"
					}
					c.check(everyPathCrosses(site.Block(), failed), fmt.Sprintf("%s: %s#%d is a fallback", short, what, n), p.instrPos(site), "only after the evaluator failed on the whole expression", "this "+what+" can be reached without the expression evaluator having failed on the whole expression: the shortcut decides the condition (`flags[i]` is looked up as the key \"i\"; `!a && b` becomes `!(a && b)`), and v-if disagrees with v-show and :class about the same expression")
				}
			}
		},
	})
}

// ---------- which conditions may decide whether a mandatory action happens ----------

// controllingIfs: the branches that decide whether site is executed — an If from which site's block
// is reachable along one successor but not along the other (taking that edge forgoes the action).
func controllingIfs(site ssa.Instruction) []Guard {
	fn := site.Parent()
	target := site.Block()
	// reachability within one iteration: back edges (to a block that dominates the source) are not followed
	fwd := func(from *ssa.BasicBlock) map[*ssa.BasicBlock]bool {
		seen := map[*ssa.BasicBlock]bool{}
		work := []*ssa.BasicBlock{from}
		for len(work) > 0 {
			b := work[len(work)-1]
			work = work[:len(work)-1]
			if seen[b] {
				continue
			}
			seen[b] = true
			for _, s := range b.Succs {
				if s.Dominates(b) {
					continue
				}
				work = append(work, s)
			}
		}
		return seen
	}
	var out []Guard
	for _, b := range fn.Blocks {
		ifi, ok := b.Instrs[len(b.Instrs)-1].(*ssa.If)
		if !ok || b.Succs[0] == b.Succs[1] {
			continue
		}
		reachVia := func(s *ssa.BasicBlock) bool {
			if s.Dominates(b) {
				return false // a back edge: the next iteration
			}
			return fwd(s)[target]
		}
		r0, r1 := reachVia(b.Succs[0]), reachVia(b.Succs[1])
		// a loop condition: the successor that does not lead on only runs the body and comes back here
		loops := func(s *ssa.BasicBlock) bool {
			isHeader := false
			for _, pr := range b.Preds {
				if b.Dominates(pr) {
					isHeader = true
				}
			}
			return isHeader && loopBlocks(b)[s]
		}
		switch {
		case r0 && !r1:
			if !loops(b.Succs[1]) {
				out = append(out, Guard{ifi, true})
			}
		case r1 && !r0:
			if !loops(b.Succs[0]) {
				out = append(out, Guard{ifi, false})
			}
		}
	}
	return out
}

// condLeaves lists what a condition is computed from: field loads, calls, parameters, φ-nodes, constants.
func condLeaves(v ssa.Value) []ssa.Value {
	var out []ssa.Value
	seen := map[ssa.Value]bool{}
	var walk func(v ssa.Value, d int)
	walk = func(v ssa.Value, d int) {
		if v == nil || seen[v] || d > 8 {
			return
		}
		seen[v] = true
		switch x := v.(type) {
		case *ssa.BinOp:
			walk(x.X, d+1)
			walk(x.Y, d+1)
		case *ssa.UnOp:
			if x.Op == token.NOT || x.Op == token.SUB {
				walk(x.X, d+1)
				return
			}
			out = append(out, v)
		case *ssa.Convert:
			walk(x.X, d+1)
		case *ssa.ChangeType:
			walk(x.X, d+1)
		case *ssa.Extract:
			out = append(out, v)
		case *ssa.Phi:
			// a condition kept in a boolean local: its operands
			if alts, _, ok := shortCircuitAlternatives(x); ok {
				for _, a := range alts {
					walk(a, d+1)
				}
				return
			}
			out = append(out, v)
		default:
			out = append(out, v)
		}
	}
	walk(v, 0)
	return out
}

type vocabulary struct {
	nodeFields map[string]bool // fields of html.Node a condition may read
	calls      map[string]bool // callee names whose result may be tested
	extra      func(v ssa.Value) bool
}

// outsideVocabulary returns a description of the first leaf of cond that the vocabulary does not allow.
func (voc vocabulary) outsideVocabulary(p *Prog, cond ssa.Value) string {
	for _, l := range condLeaves(cond) {
		if isErrorType(l.Type()) {
			continue // the error of an earlier step
		}
		switch x := l.(type) {
		case *ssa.Const, *ssa.Parameter, *ssa.Phi:
			continue
		case *ssa.UnOp:
			if x.Op == token.MUL {
				if fv := loadedField(x); fv != nil {
					if fv.Pkg() != nil && fv.Pkg().Path() == "golang.org/x/net/html" {
						if voc.nodeFields[fv.Name()] {
							continue
						}
						return "the node's " + fv.Name()
					}
					if voc.extra != nil && voc.extra(l) {
						continue
					}
					return "field " + fv.Name()
				}
				if cellOf(x.X) != nil {
					continue // a local variable
				}
			}
		case *ssa.Call:
			n := calleeName(&x.Call)
			if voc.calls[n] || n == "builtin.len" {
				continue
			}
			if voc.extra != nil && voc.extra(l) {
				continue
			}
			return "the result of " + n
		case *ssa.Extract:
			if cl, ok := x.Tuple.(*ssa.Call); ok {
				n := calleeName(&cl.Call)
				if voc.calls[n] || isErrorType(x.Type()) {
					continue
				}
				if voc.extra != nil && voc.extra(l) {
					continue
				}
				return "a result of " + n
			}
			if _, ok := x.Tuple.(*ssa.Lookup); ok {
				continue
			}
			if _, ok := x.Tuple.(*ssa.TypeAssert); ok {
				continue
			}
			if _, ok := x.Tuple.(*ssa.Next); ok {
				continue
			}
		case *ssa.Lookup, *ssa.TypeAssert:
			continue
		}
		if voc.extra != nil && voc.extra(l) {
			continue
		}
		return describeValue(l)
	}
	return ""
}

func init() {
	register(&Rule{
		ID: "C04.R8", Props: []string{"C04", "C11"}, Min: 4,
		Doc: "every item is visited: in Stack.ForEach the calls of the per-item callback are decided only by whether the collection resolved, by its reflect kind, by the loop bound (index against Len / the key list) and by the error a previous callback returned — no other test of the collection's value (IsZero, a content check, a type name) stands between a resolved sequence and its items",
		Run: func(p *Prog, c *Ctx) {
			fn := p.MustFn("(*vuego.Stack).ForEach")
			voc := vocabulary{calls: map[string]bool{
				"(*vuego.Stack).Resolve": true, "(reflect.Value).Kind": true, "(reflect.Value).Len": true, "(reflect.Value).IsValid": true, "(reflect.Value).IsNil": true,
			}}
			n := 0
			for _, site := range callsIn(fn) {
				cc := site.Common()
				if cc.IsInvoke() || cc.StaticCallee() != nil {
					continue
				}
				if _, isBuiltin := cc.Value.(*ssa.Builtin); isBuiltin {
					continue
				}
				// a call of the callback parameter
				isCb := false
				for _, o := range p.origins(cc.Value, OriginOpts{}) {
					if prm, ok := o.(*ssa.Parameter); ok && prm.Parent() == fn {
						isCb = true
					}
				}
				if !isCb {
					continue
				}
				n++
				for _, g := range controllingIfs(site) {
					n++
					what := voc.outsideVocabulary(p, g.If.Cond)
					c.check(what == "", fmt.Sprintf("ForEach: callback#%d decided by %s", n, p.instrPos(g.If)), p.instrPos(g.If), "resolution, kind, loop bound or a callback error", "whether items are visited also depends on "+what+": for some value of a sequence kind no instance is rendered although it has items (reflect.Value.IsZero is true for an array of zero values), and a following v-else shows up next to a non-empty collection")
				}
			}
			c.check(n > 0, "ForEach: calls the callback", p.pos(fn.Pos()), "callback calls found", "ForEach never calls its callback")
		},
	})

	register(&Rule{
		ID: "C05.R7", Props: []string{"C05"}, Min: 3,
		Doc: "shorthand resolution visits every element: in the walk that rewrites registered component tags, the registry lookup and the descent into the children are decided only by the node's type, its tag name (registry membership), the child/sibling links and errors — not by any other property of the node (namespace, attributes, atom), so a shorthand tag is resolved wherever an explicit <template include> would work (inside inline <svg> / <math> as well)",
		Run: func(p *Prog, c *Ctx) {
			fn := p.MustFn("(*vuego.Vue).processComponentNode")
			voc := vocabulary{
				nodeFields: map[string]bool{"Type": true, "Data": true, "FirstChild": true, "NextSibling": true, "LastChild": true},
				calls:      map[string]bool{"(*vuego.Vue).GetComponentFile": true},
			}
			n := 0
			for _, site := range callsIn(fn) {
				name := calleeName(site.Common())
				if name != "(*vuego.Vue).processComponentNode" && name != "(*vuego.Vue).GetComponentFile" && name != "(*vuego.Vue).replaceWithInclude" {
					continue
				}
				n++
				c.ok(fmt.Sprintf("processComponentNode: %s#%d", strings.TrimPrefix(name, "(*vuego.Vue)."), n), p.instrPos(site), "action found")
				for _, g := range controllingIfs(site) {
					n++
					what := voc.outsideVocabulary(p, g.If.Cond)
					c.check(what == "", fmt.Sprintf("processComponentNode: %s decided by %s", strings.TrimPrefix(name, "(*vuego.Vue)."), p.instrPos(g.If)), p.instrPos(g.If), "node type, tag name, links, errors", "whether a node (and everything below it) is looked up in the component registry also depends on "+what+": a registered shorthand tag in such a place is emitted as a literal unknown element — no props, no front-matter, no :required check — while the equivalent <template include> works there")
				}
			}
			c.check(n > 0, "processComponentNode: walks", p.pos(fn.Pos()), "recursion and lookup found", "the shorthand walk has no registry lookup or recursion")
		},
	})

	register(&Rule{
		ID: "C04.R9", Props: []string{"C04", "C06", "C03"}, Min: 4,
		Doc: "v-for wraps everything else on its element: in the evaluator's per-element dispatch the special handlers — slot, conditional chain, template, and the ordinary attribute pass — are only reached when the element carries no v-for (the v-for branch comes first and hands each per-item copy back to the evaluator), so `<slot v-for>`, `<template v-for>` and `v-for` + `v-if` on one element all yield one instance per item",
		Run: func(p *Prog, c *Ctx) {
			fn := p.MustFn("(*vuego.Vue).evaluate")
			n := 0
			for _, site := range callsIn(fn) {
				name := calleeName(site.Common())
				switch name {
				case "(*vuego.Vue).evalSlot", "(*vuego.Vue).evalElseIfChain", "(*vuego.Vue).evalTemplate", "(*vuego.Vue).evalAttributes":
				default:
					continue
				}
				n++
				noFor := false
				for _, g := range controllingIfs(site) {
					cnd, flip := stripNot(g.If.Cond)
					want := g.Branch != flip
					// HasAttr(node, "v-for") is false / GetAttr(node, "v-for") == ""
					if cl := isCallNamed(cnd, "helpers.HasAttr"); cl != nil && !want {
						if k, ok := constString(cl.Call.Args[1]); ok && k == "v-for" {
							noFor = true
						}
					}
					if b := eqOnEdge(cnd, want); b != nil {
						if cl := isCallNamed(b.X, "helpers.GetAttr"); cl != nil {
							if k, ok := constString(cl.Call.Args[1]); ok && k == "v-for" {
								if s, ok := constString(b.Y); ok && s == "" {
									noFor = true
								}
							}
						}
					}
				}
				// the test must lie on every feasible way to the handler, not just on some: a short-circuit
				// (`tag != "slot" && HasAttr(v-for)`) lets an element through without asking
				if facts, ok := pathFacts(site.Block()); ok && noFor {
					onAll := false
					for _, f := range facts {
						if cl := isCallNamed(f.Cond, "helpers.HasAttr"); cl != nil && !f.Want {
							if k, ok := constString(cl.Call.Args[1]); ok && k == "v-for" {
								onAll = true
							}
						}
						if b := eqOnEdge(f.Cond, f.Want); b != nil {
							if cl := isCallNamed(b.X, "helpers.GetAttr"); cl != nil {
								if k, ok := constString(cl.Call.Args[1]); ok && k == "v-for" {
									if s, ok := constString(b.Y); ok && s == "" {
										onAll = true
									}
								}
							}
						}
					}
					noFor = onAll
				}
				c.check(noFor, fmt.Sprintf("evaluate: %s only without v-for#%d", strings.TrimPrefix(name, "(*vuego.Vue)."), n), p.instrPos(site), "reached only when the element has no v-for", "this handler is reached for an element that still carries v-for: the loop is never run for it (a `<slot v-for>` is filled exactly once, without its loop variable; a `v-for` + `v-if` element is decided once instead of per item)")
			}
		},
	})
}

func init() {
	register(&Rule{
		ID: "C07.R9", Props: []string{"C07", "C08"}, Min: 2,
		Doc: "the layout route is chosen from what Load bound: Template.Render decides between the layout chain and plain rendering by reading the `layout` key through the template's own scope (Get), and Template.Load binds the loaded file's front-matter into that very scope — so a page rendered straight after Load (RenderFile, Load(x).Render()) still sees the layout its front-matter names. Dropping the binding from Load leaves the decision blind unless a Fill happens in between",
		Run: func(p *Prog, c *Ctx) {
			render := p.MustFn("(*vuego.template).Render")
			reads := false
			for _, site := range callsIn(render) {
				if n := calleeName(site.Common()); n == "(*vuego.template).Get" || n == "(*vuego.Stack).Lookup" || n == "(*vuego.Stack).Resolve" || n == "(*vuego.Stack).GetString" {
					for _, a := range site.Common().Args {
						if k, ok := constString(a); ok && k == "layout" {
							reads = true
						}
					}
				}
			}
			c.check(reads, "Render: reads the layout key from the template's scope", p.pos(render.Pos()), "Get(\"layout\")", "Template.Render no longer reads the `layout` key from the template's scope")
			ld := p.MustFn("(*vuego.template).Load")
			c.check(p.loadAssignsFrontMatter(), "Load: binds the front-matter Render reads", p.pos(ld.Pos()), "front-matter bound in the fresh template's scope", "Load does not bind the file's front-matter in the new template's scope, which is where Render looks for `layout`: a page rendered right after Load takes the no-layout route — the bare page is written, the named chain is skipped and a layout cycle goes unreported")
		},
	})
}

func init() {
	register(&Rule{
		ID: "C08.R8", Props: []string{"C08", "C05"}, Min: 4,
		Doc: "a variable is selected as a whole from one source: wherever one data source is merged over another (config files, Fill data, front-matter), the key is assigned in the accumulating map itself — never inside a map that was found as a value of that map (a nested, key-by-key merge of two sources' values). With a deep merge a variable defined by a higher-ranked source keeps sub-keys of the lower-ranked one, so the value a template sees comes from no single source",
		Run: func(p *Prog, c *Ctx) {
			roots := []*ssa.Function{p.MustFn("vuego.loadConfig"), p.MustFn("(*vuego.template).Fill"), p.MustFn("(*vuego.Vue).Render"), p.MustFn("(*vuego.Vue).RenderFragment"), p.MustFn("(*vuego.template).Load")}
			scope := map[*ssa.Function]bool{}
			for f := range p.Cone(roots...) {
				if pk := funcPkg(f); pk != nil && pk.Path() == modPath {
					scope[f] = true
				}
			}
			isDataMap := func(t types.Type) bool {
				m, ok := t.Underlying().(*types.Map)
				if !ok {
					return false
				}
				_, isIface := m.Elem().Underlying().(*types.Interface)
				return isString(m.Key()) && isIface
			}
			// nestedOrigin: the map value was found inside another data map (lookup + type assertion), following
			// parameters to the arguments of the module's call sites
			var nestedOrigin func(v ssa.Value, depth int, seen map[ssa.Value]bool) string
			nestedOrigin = func(v ssa.Value, depth int, seen map[ssa.Value]bool) string {
				if depth > 4 || seen[v] {
					return ""
				}
				seen[v] = true
				for _, o := range p.origins(v, OriginOpts{}) {
					switch x := o.(type) {
					case *ssa.Lookup:
						if isDataMap(x.X.Type()) {
							return "a value looked up at " + p.instrPos(x)
						}
					case *ssa.Extract:
						if lk, ok := x.Tuple.(*ssa.Lookup); ok && isDataMap(lk.X.Type()) {
							return "a value looked up at " + p.instrPos(lk)
						}
					case *ssa.Parameter:
						fn := x.Parent()
						idx := -1
						for i, q := range fn.Params {
							if q == x {
								idx = i
							}
						}
						for _, site := range p.Callers(fn) {
							if !scope[site.Parent()] && !scope[rootFunc(site.Parent())] {
								continue
							}
							args := callArgs(site.Common())
							if idx >= 0 && idx < len(args) {
								if why := nestedOrigin(args[idx], depth+1, seen); why != "" {
									return why + " and passed to " + shortName(fn) + " at " + p.instrPos(site)
								}
							}
						}
					}
				}
				return ""
			}
			n := 0
			for _, fn := range sortedFuncs(scope) {
				eachInstr(fn, func(in ssa.Instruction) {
					mu, ok := in.(*ssa.MapUpdate)
					if !ok || !isDataMap(mu.Map.Type()) {
						return
					}
					// only merges: the key comes from ranging over another map
					fromRange := false
					var kw func(v ssa.Value, d int)
					kw = func(v ssa.Value, d int) {
						if v == nil || d > 6 {
							return
						}
						switch x := v.(type) {
						case *ssa.Extract:
							if _, isNext := x.Tuple.(*ssa.Next); isNext {
								fromRange = true
							}
						case *ssa.Phi:
							for _, e := range x.Edges {
								kw(e, d+1)
							}
						case *ssa.ChangeType:
							kw(x.X, d+1)
						case *ssa.Convert:
							kw(x.X, d+1)
						case *ssa.UnOp:
							if cell := cellOf(x.X); cell != nil {
								for _, st := range storesToCell(cell) {
									kw(st.Val, d+1)
								}
							}
						}
					}
					kw(mu.Key, 0)
					if !fromRange {
						return
					}
					n++
					why := nestedOrigin(mu.Map, 0, map[ssa.Value]bool{})
					c.check(why == "", fmt.Sprintf("%s: merge#%d assigns in the accumulating map", shortName(fn), n), p.instrPos(mu), "flat key-by-key assignment", "this merge writes into a map that is itself a value of the data being merged ("+why+"): two sources' values for one variable are blended key by key instead of the higher-ranked source's value replacing the other as a whole")
				})
			}
			c.check(n >= 4, "merges found", "-", fmt.Sprintf("%d key-by-key merges examined", n), "fewer merges of data sources than expected")
		},
	})
}

func init() {
	register(&Rule{
		ID: "C08.R9", Props: []string{"C08", "C10"}, Min: 2,
		Doc: "a new template inherits the engine and a copy of the data — nothing else: in the constructor behind Template.New and Template.Load, the only things that flow from the parent into the fresh template are the engine pointer and Stack.Copy() of its scope stack; the loaded file's state (front-matter, bytes, file name, error) stays behind. A whole-struct copy makes New() on a loaded page carry that page's front-matter along, which Fill then ranks above the data passed to it",
		Run: func(p *Prog, c *Ctx) {
			hosts, isRole := p.hostsOf("(*vuego.template).new")
			if len(hosts) == 0 {
				undecided("anchor function (*vuego.template).new not found, nor its former callers")
			}
			fn := hosts[0]
			recv := fn.Params[0]
			n := 0
			// the fresh templates: what the constructor returns, or — when it was inlined into New and Load —
			// every template struct allocated there
			type resultAt struct {
				o  ssa.Value
				at ssa.Instruction
			}
			var results []resultAt
			if isRole {
				for _, r := range returnsOf(fn) {
					for _, o := range p.origins(r.Results[0], OriginOpts{}) {
						results = append(results, resultAt{o, r})
					}
				}
			} else {
				for _, h := range hosts {
					eachInstr(h, func(in ssa.Instruction) {
						if al, ok := in.(*ssa.Alloc); ok && al.Heap && strings.HasSuffix(typeShort(al.Type()), "vuego.template") {
							results = append(results, resultAt{al, al})
						}
					})
				}
			}
			for _, ra := range results {
				{
					o, r := ra.o, ra.at
					al, ok := o.(*ssa.Alloc)
					if !ok {
						c.fail(fmt.Sprintf("new: result#%d", n+1), p.instrPos(r), "the constructor returns "+describeValue(o)+" instead of a freshly allocated template: the parent and the new template are the same object")
						n++
						continue
					}
					for _, u := range *al.Referrers() {
						switch x := u.(type) {
						case *ssa.Store:
							if x.Addr == ssa.Value(al) {
								n++
								c.fail(fmt.Sprintf("new: whole-struct store#%d", n), p.instrPos(x), "the fresh template is initialised by copying a whole template value: front-matter, file name, bytes and error of the parent come along (New() on a loaded page keeps that page's front-matter, which then outranks Fill data)")
							}
						case *ssa.FieldAddr:
							fname := fieldName(x.X.Type(), x.Field)
							for _, uu := range *x.Referrers() {
								st, ok := uu.(*ssa.Store)
								if !ok || st.Addr != ssa.Value(x) {
									continue
								}
								n++
								okSrc := true
								why := ""
								// what comes from the parent: loads of the receiver's fields (anything but the engine), the parent's
								// stack other than through Copy(); values that do not come from the receiver (the file just loaded,
								// parameters, constants) are the new template's own
								fromRecv := func(v ssa.Value) bool {
									ld, ok := v.(*ssa.UnOp)
									if !ok || ld.Op != token.MUL {
										return false
									}
									fa, ok := ld.X.(*ssa.FieldAddr)
									if !ok {
										return false
									}
									for _, o := range p.origins(fa.X, OriginOpts{}) {
										if o == ssa.Value(recv) {
											return true
										}
									}
									return false
								}
								for _, so := range p.origins(st.Val, OriginOpts{}) {
									switch y := so.(type) {
									case *ssa.Call:
										// t.stack.Copy() is the one way parent data may come along
										if calleeName(&y.Call) == "(*vuego.Stack).Copy" {
											continue
										}
										for _, a := range callArgs(&y.Call) {
											for _, ao := range p.origins(a, OriginOpts{}) {
												if fromRecv(ao) {
													if f := loadedField(ao); f == nil || !fieldIs(f, "vue") {
														okSrc, why = false, "the parent's "+describeValue(ao)+" passed to "+calleeName(&y.Call)
													}
												}
											}
										}
									case *ssa.UnOp:
										if fromRecv(y) {
											f := loadedField(y)
											if f == nil || !fieldIs(f, "vue") {
												okSrc, why = false, "field "+canonFieldName(f)+" of the parent"
												if f != nil && fieldIs(f, "stack") {
													why = "the parent's own scope stack (shared, not copied)"
												}
											}
										}
									}
								}
								c.check(okSrc, fmt.Sprintf("new: field %s#%d", fname, n), p.instrPos(st), "engine pointer, Stack.Copy() or a constant", "the fresh template's "+fname+" is taken from "+why+" of the parent: state of the parent's loaded file leaks into every template made from it")
							}
						}
					}
				}
			}
			_ = recv
			c.check(n >= 2, "new: initialises engine and stack", p.pos(fn.Pos()), fmt.Sprintf("%d initialising stores", n), "the constructor does not set the engine and the stack copy")
		},
	})
}

// paramDeps: which parameters of fn the value is computed from (through calls, conversions, arithmetic).
func paramDeps(v ssa.Value) map[*ssa.Parameter]bool { return paramDepsExcept(v, nil) }

// paramDepsExcept does not look through calls for which barrier returns true.
func paramDepsExcept(v ssa.Value, barrier func(*ssa.Call) bool) map[*ssa.Parameter]bool {
	out := map[*ssa.Parameter]bool{}
	seen := map[ssa.Value]bool{}
	var walk func(v ssa.Value, d int)
	walk = func(v ssa.Value, d int) {
		if v == nil || seen[v] || d > 12 {
			return
		}
		seen[v] = true
		if prm, ok := v.(*ssa.Parameter); ok {
			out[prm] = true
			return
		}
		if cl, ok := v.(*ssa.Call); ok && barrier != nil && barrier(cl) {
			return
		}
		if in, ok := v.(ssa.Instruction); ok {
			for _, op := range in.Operands(nil) {
				if op != nil && *op != nil {
					walk(*op, d+1)
				}
			}
		}
		if ld, ok := v.(*ssa.UnOp); ok && ld.Op == token.MUL {
			if cell := cellOf(ld.X); cell != nil {
				for _, st := range storesToCell(cell) {
					walk(st.Val, d+1)
				}
			}
		}
		if al, ok := v.(*ssa.Alloc); ok {
			// what is stored into the object (the backing array of a variadic argument list, a literal)
			for _, u := range *al.Referrers() {
				switch x := u.(type) {
				case *ssa.IndexAddr, *ssa.FieldAddr:
					for _, uu := range *x.(ssa.Value).Referrers() {
						if st, ok := uu.(*ssa.Store); ok && st.Addr == x.(ssa.Value) {
							walk(st.Val, d+1)
						}
					}
				case *ssa.Store:
					if x.Addr == ssa.Value(al) {
						walk(x.Val, d+1)
					}
				}
			}
		}
	}
	walk(v, 0)
	return out
}

func init() {
	register(&Rule{
		ID: "C10.R7", Props: []string{"C10", "C04"}, Min: 3,
		Doc: "the order of map keys is total: the comparator that puts the keys of a map into a fixed order before v-for iterates them answers every pair by comparing something computed from the first key with the same thing computed from the second — it never returns a constant for a class of keys. A constant `false` makes all such keys equal, the sort leaves Go's random map order in place, and two renders of the same data differ",
		Run: func(p *Prog, c *Ctx) {
			fn := p.MustFn("vuego.mapKeyLess")
			if len(fn.Params) != 2 {
				undecided("mapKeyLess does not take two keys")
			}
			a, b := fn.Params[0], fn.Params[1]
			isPairCompare := func(v ssa.Value) bool {
				bo, ok := v.(*ssa.BinOp)
				if !ok {
					return false
				}
				switch bo.Op {
				case token.LSS, token.GTR, token.LEQ, token.GEQ, token.EQL, token.NEQ:
				default:
					return false
				}
				dx, dy := paramDeps(bo.X), paramDeps(bo.Y)
				return (dx[a] && !dx[b] && dy[b] && !dy[a]) || (dx[b] && !dx[a] && dy[a] && !dy[b])
			}
			// a key's value, as opposed to its kind or type
			kindOnly := func(cl *ssa.Call) bool {
				switch calleeName(&cl.Call) {
				case "(reflect.Value).Kind", "(reflect.Value).Type", "(reflect.Value).IsValid", "(reflect.Value).CanInt", "(reflect.Value).CanUint", "(reflect.Value).CanFloat", "(reflect.Value).CanInterface":
					return true
				}
				return false
			}
			usesKeyValue := func(v ssa.Value) bool { return len(paramDepsExcept(v, kindOnly)) > 0 }
			n := 0
			for i, r := range returnsOf(fn) {
				for _, alt := range alternatives(r.Results[0], r.Block()) {
					n++
					key := fmt.Sprintf("mapKeyLess: return#%d alternative#%d", i+1, n)
					if isPairCompare(alt.V) {
						c.ok(key, p.instrPos(r), "compares a projection of the first key with the same projection of the second")
						continue
					}
					if _, isConst := alt.V.(*ssa.Const); !isConst {
						c.check(usesKeyValue(alt.V), key, p.instrPos(r), "computed from the keys' values", "the comparator's answer does not depend on the values of the keys ("+describeValue(alt.V)+")")
						continue
					}
					// a constant arm (`x < y || (x == y && …)`, `!a && b`): fine when the edge it arrives on is decided by a key's value
					decided := false
					if alt.To != nil {
						if ifi, ok := alt.From.Instrs[len(alt.From.Instrs)-1].(*ssa.If); ok && usesKeyValue(ifi.Cond) {
							decided = true
						}
					}
					c.check(decided, key, p.instrPos(r), "constant arm of a comparison of the keys' values", "the comparator answers with a constant for a class of keys (decided by the keys' kind or type only, not by comparing them): all keys of that class count as equal, so their relative order — and with it the order of the v-for instances and their indexes — is whatever Go's randomised map iteration produced")
				}
			}
			c.check(n >= 3, "mapKeyLess: compares", p.pos(fn.Pos()), fmt.Sprintf("%d alternatives", n), "comparator has fewer cases than expected")
		},
	})
}

func init() {
	register(&Rule{
		ID: "C13.R7", Props: []string{"C13"}, Min: 4,
		Doc: "what counts as a pipe is decided in one way: the string the filter-chain parser splits on and the string every position tests for before routing an expression to the pipe interpreter are the same constant. If the router says `contains \"|\"` but the parser splits on `\" | \"`, a chain written `name|upper` or `a | f|g(1)` is sent to the pipe interpreter unsplit and its filters are not applied left to right (or the render fails looking up the variable `name|upper`)",
		Run: func(p *Prog, c *Ctx) {
			parser := p.MustFn("vuego.parsePipeExpr")
			split := map[string]string{}
			detectInParser := map[string]string{}
			for _, site := range callsIn(parser) {
				n := calleeName(site.Common())
				args := site.Common().Args
				if len(args) < 2 {
					continue
				}
				k, ok := constString(args[1])
				if !ok || !strings.Contains(k, "|") {
					continue
				}
				switch n {
				case "strings.Split", "strings.SplitN", "strings.SplitAfter", "strings.Cut", "strings.SplitSeq":
					split[k] = p.instrPos(site)
				case "strings.Contains", "strings.Index", "strings.ContainsAny", "strings.IndexByte", "strings.ContainsRune":
					detectInParser[k] = p.instrPos(site)
				}
			}
			c.check(len(split) == 1, "parsePipeExpr: splits the chain on one delimiter", p.pos(parser.Pos()), fmt.Sprintf("delimiter(s): %q", sortedKeys(split)), fmt.Sprintf("the chain parser splits on %d different pipe delimiters %q", len(split), sortedKeys(split)))
			var delim string
			for k := range split {
				delim = k
			}
			check := func(k, where, who string) {
				c.check(k == delim, fmt.Sprintf("%s: pipe test for %q agrees with the splitter", who, k), where, fmt.Sprintf("tests for %q, the parser splits on %q", k, delim), fmt.Sprintf("this position decides that an expression is a pipe by looking for %q, but the chain parser splits on %q: an expression with a pipe in the other spelling is routed to the pipe interpreter and not split (`name|upper` is looked up as one variable; the filters after it are not applied)", k, delim))
			}
			for _, k := range sortedKeys(detectInParser) {
				check(k, detectInParser[k], "parsePipeExpr")
			}
			// the routers: conditions under which parsePipeExpr is called
			for _, site := range p.Callers(parser) {
				who := shortName(site.Parent())
				seen := map[string]bool{}
				var conds []ssa.Value
				for _, g := range controllingIfs(site) {
					conds = append(conds, g.If.Cond)
				}
				// the disjuncts of `contains("|") || isCall(x) || …` each enter the block separately
				for x := site.Block(); x != nil; x = x.Idom() {
					for _, ec := range enteringConds(x) {
						if ec.cond != nil {
							conds = append(conds, ec.cond)
						}
					}
				}
				for _, cnd := range conds {
					walkCond(cnd, func(v ssa.Value) {
						cl, ok := v.(*ssa.Call)
						if !ok || len(cl.Call.Args) < 2 {
							return
						}
						switch calleeName(&cl.Call) {
						case "strings.Contains", "strings.Index", "strings.ContainsAny", "strings.IndexByte", "strings.ContainsRune":
							if k, ok := constString(cl.Call.Args[1]); ok && strings.Contains(k, "|") && !seen[k] {
								seen[k] = true
								check(k, p.instrPos(cl), who)
							}
						}
					})
				}
			}
		},
	})
}

func init() {
	register(&Rule{
		ID: "C14.R9", Props: []string{"C14", "C10", "C04"}, Min: 4,
		Doc: "static attributes stay in place: no function that edits a node's attribute list moves an attribute to another position — an element of an []html.Attribute is only ever overwritten by a value that does not come from a later, length-derived position of the same kind of list (the swap-remove idiom `a[i] = a[len(a)-1]`), and a rebuilt list is filled in ascending source order. Removing `v-for` from `<li v-for class id title>` must leave `class id title`, not `title class id`",
		Run: func(p *Prog, c *Ctx) {
			isAttr := func(t types.Type) bool { return isNamed(t, "golang.org/x/net/html", "Attribute") }
			elemIsAttr := func(ia *ssa.IndexAddr) bool {
				pt, ok := ia.Type().Underlying().(*types.Pointer)
				return ok && isAttr(pt.Elem())
			}
			// lastIndex: the value is `len(x) - k` (directly or through a local), i.e. a position counted from the end
			lastIndex := func(v ssa.Value) bool {
				for _, o := range append(p.origins(v, OriginOpts{}), v) {
					if bo, ok := o.(*ssa.BinOp); ok && bo.Op == token.SUB && isCallNamed(bo.X, "builtin.len") != nil {
						if _, isK := constInt(bo.Y); isK {
							if _, isPhi := v.(*ssa.Phi); !isPhi {
								return true
							}
						}
					}
				}
				return false
			}
			n := 0
			for _, fn := range p.Funcs {
				edits := false
				var bad []string
				eachInstr(fn, func(in ssa.Instruction) {
					st, ok := in.(*ssa.Store)
					if !ok {
						return
					}
					if fv := fieldVar(st.Addr); fv != nil && fv.Name() == "Attr" && fv.Pkg() != nil && fv.Pkg().Path() == "golang.org/x/net/html" {
						edits = true
					}
					ia, ok := st.Addr.(*ssa.IndexAddr)
					if !ok || !elemIsAttr(ia) {
						return
					}
					edits = true
					// the stored attribute: loaded from another position?
					for _, o := range p.origins(st.Val, OriginOpts{}) {
						ld, ok := o.(*ssa.UnOp)
						if !ok || ld.Op != token.MUL {
							continue
						}
						ib, ok := ld.X.(*ssa.IndexAddr)
						if !ok || !elemIsAttr(ib) || ib.Index == ia.Index {
							continue
						}
						if lastIndex(ib.Index) && ib.Index != ia.Index {
							bad = append(bad, p.instrPos(st))
						}
					}
				})
				if !edits {
					continue
				}
				n++
				c.check(len(bad) == 0, shortName(fn)+": attribute order kept", p.pos(fn.Pos()), "no attribute is moved from the end of the list into an earlier position", "an attribute taken from the end of the list overwrites an earlier position ("+strings.Join(bad, ", ")+"): the remaining attributes change their order (`<li v-for class id title>` is emitted as `<li title class id>`)")
			}
			c.check(n >= 3, "attribute editors found", "-", fmt.Sprintf("%d functions that edit attribute lists", n), "fewer attribute-editing functions than expected")
		},
	})
}

func init() {
	register(&Rule{
		ID: "C17.R8", Props: []string{"C17", "C04", "C08", "C05"}, Min: 2, // C05: a null prop or front-matter key hides the includer's variable of the same name
		Doc: "the innermost binding wins, whatever its value: in Stack.Lookup the scan over the scopes stops at the first scope whose map has the key — the decision uses only the presence flag of the map lookup (and the loop bound), never the value found. A test on the value (`ok && v != nil`) lets a name bound to nil fall through to an outer scope, so Lookup disagrees with the merged environment and a loop variable holding nil is shadowed by an outer variable of the same name",
		Run: func(p *Prog, c *Ctx) {
			fn := p.MustFn("(*vuego.Stack).Lookup")
			n := 0
			// the scan is a loop of Lookup, or the body closure of a range-over-func loop over the scope list —
			// and any other method of the stack that walks the scopes by itself (a `fast path` in Resolve …)
			scanFns := []*ssa.Function{fn}
			isBody := map[*ssa.Function]bool{}
			for _, rf := range rangeFuncs(fn) {
				scanFns = append(scanFns, rf.Body)
				isBody[rf.Body] = true
			}
			for _, other := range p.Funcs {
				if other == fn || p.Dropped[other] || other.Parent() != nil || typeShort(recvType(other)) != "*vuego.Stack" {
					continue
				}
				scansScopes := false
				eachInstr(other, func(in ssa.Instruction) {
					if lk, ok := in.(*ssa.Lookup); ok && loopHeaderOf(lk.Block()) != nil {
						for _, o := range p.origins(lk.X, OriginOpts{}) {
							if ld, ok := o.(*ssa.UnOp); ok {
								if ia, ok := ld.X.(*ssa.IndexAddr); ok {
									if f := loadedField(ia.X); f != nil && fieldIs(f, "stack") {
										scansScopes = true
									}
								}
							}
						}
					}
				})
				if scansScopes {
					scanFns = append(scanFns, other)
				}
			}
			for _, fn := range scanFns {
				fn := fn
				eachInstr(fn, func(in ssa.Instruction) {
					lk, ok := in.(*ssa.Lookup)
					if !ok || (loopHeaderOf(lk.Block()) == nil && !isBody[fn]) {
						return
					}
					if _, isMap := lk.X.Type().Underlying().(*types.Map); !isMap {
						return
					}
					var val, present ssa.Value
					if !lk.CommaOk {
						val = lk
					}
					for _, u := range *lk.Referrers() {
						if ex, ok := u.(*ssa.Extract); ok {
							if ex.Index == 0 {
								val = ex
							} else {
								present = ex
							}
						}
					}
					n++
					c.check(present != nil, fmt.Sprintf("Lookup: scope lookup#%d uses the presence flag", n), p.instrPos(lk), "comma-ok lookup", "the scope lookup ignores whether the key is present")
					// every branch in the loop that depends on this lookup must depend on the presence flag only
					loop := map[*ssa.BasicBlock]bool{}
					if h := loopHeaderOf(lk.Block()); h != nil {
						loop = loopBlocks(h)
					}
					for _, b := range fn.Blocks {
						if !loop[b] && !isBody[fn] {
							continue
						}
						ifi, ok := b.Instrs[len(b.Instrs)-1].(*ssa.If)
						if !ok {
							continue
						}
						usesVal := false
						for _, l := range condLeaves(ifi.Cond) {
							if val != nil && (l == val || sameValue(l, val)) {
								usesVal = true
							}
							// `inner, ok := v.(map[string]any)`: whether the assertion holds is a property of the value
							if ex, ok := l.(*ssa.Extract); ok && val != nil {
								if ta, ok := ex.Tuple.(*ssa.TypeAssert); ok && (ta.X == val || sameValue(ta.X, val)) {
									usesVal = true
								}
							}
							// through a local the value was stored into
							for _, o := range p.origins(l, OriginOpts{}) {
								if val != nil && o == val {
									usesVal = true
								}
							}
						}
						n++
						c.check(!usesVal, fmt.Sprintf("%s: branch at %s decided by presence only", strings.TrimPrefix(shortName(rootFunc(fn)), "(*vuego.Stack)."), p.instrPos(ifi)), p.instrPos(ifi), "does not test the value found", "whether the scan stops at this scope depends on the value bound there, not only on the name being bound: a name bound to nil (or another rejected value) in an inner scope no longer shadows outer bindings — Lookup, Resolve and Get* return the outer value while EnvMap reports the inner nil")
					}
				})
			}
			c.check(n > 0, "Lookup: scans the scopes", p.pos(fn.Pos()), "scope lookup in a loop", "Lookup has no scope scan")
		},
	})
}

func init() {
	register(&Rule{
		ID: "C18.R6", Props: []string{"C18"}, Min: 1,
		Doc: "one definition of `the first layer that has the path`: every method of the overlay that answers for a single path by walking the layers and returning at the first success decides `this layer has it` with the layer's own Open (as Open does) — the call whose error sends the walk on to the next layer is an Open of that layer, or the method delegates to the overlay's Open/Stat. A method that walks on after a different operation failed (fs.ReadFile on a path that is a directory in an upper layer) serves content from a lower layer although an upper layer has the path",
		Run: func(p *Prog, c *Ctx) {
			n := 0
			for _, fn := range p.Funcs {
				if fn.Parent() != nil || typeShort(recvType(fn)) != "*vuego.OverlayFS" {
					continue
				}
				// walks the layer list?
				var layerLoop *ssa.BasicBlock
				eachInstr(fn, func(in ssa.Instruction) {
					if ld, ok := in.(*ssa.UnOp); ok {
						if f := loadedField(ld); f != nil && fieldIs(f, "chainFS") {
							for _, u := range *ld.Referrers() {
								if h := loopHeaderOf(u.Block()); h != nil {
									layerLoop = h
								}
								if rg, ok := u.(*ssa.Range); ok {
									for _, uu := range *rg.Referrers() {
										if h := loopHeaderOf(uu.Block()); h != nil {
											layerLoop = h
										}
									}
								}
							}
						}
					}
				})
				if layerLoop == nil {
					continue
				}
				loop := loopBlocks(layerLoop)
				// first-match shape: a return with a nil error inside the loop
				firstMatch := false
				for _, r := range returnsOf(fn) {
					if len(r.Results) == 0 || !isNilConst(r.Results[len(r.Results)-1]) {
						continue
					}
					// leaves the loop from its body (not through the loop's own exit test)
					for _, pr := range r.Block().Preds {
						if loop[pr] && pr != layerLoop {
							firstMatch = true
						}
					}
					if loop[r.Block()] {
						firstMatch = true
					}
				}
				if !firstMatch {
					continue // a union over all layers (ReadDir, Glob): other rules
				}
				n++
				// the calls in the loop whose error decides between "return" and "next layer"
				var deciding []string
				okAll := true
				for _, site := range callsIn(fn) {
					if !loop[site.Block()] {
						continue
					}
					errs, has := errorResultOf(site)
					if !has {
						continue
					}
					decides := false
					for _, e := range errs {
						if refs := e.Referrers(); refs != nil {
							for _, u := range *refs {
								if bo, ok := u.(*ssa.BinOp); ok && (bo.Op == token.EQL || bo.Op == token.NEQ) {
									decides = true
								}
							}
						}
					}
					if !decides {
						continue
					}
					name := calleeName(site.Common())
					deciding = append(deciding, name)
					switch name {
					case "io/fs.FS.Open", "io/fs.Stat", "(*vuego.OverlayFS).Open", "io/fs.StatFS.Stat":
					default:
						okAll = false
					}
				}
				c.check(okAll && len(deciding) > 0, shortName(fn)+": a layer is skipped only when it cannot open the path", p.pos(fn.Pos()), "decided by "+strings.Join(deciding, ", "), "this method walks on to the next layer when "+strings.Join(deciding, ", ")+" fails — a different test than Open's: for a path that an upper layer has (as a directory, or unreadable) it serves the content of a lower layer, while Open and Stat answer from the upper one")
			}
			c.check(n >= 1, "first-match methods found", "-", fmt.Sprintf("%d method(s) that return at the first layer that has the path", n), "no first-match method found on the overlay")
		},
	})
}

func init() {
	register(&Rule{
		ID: "C19.R7", Props: []string{"C19"}, Min: 4,
		Doc: "verbatim elements are never laid out inline: the formatter's table of inline elements contains none of the elements whose content must not be touched — script, style (raw text: no escaping, no whitespace normalisation), pre and textarea (whitespace is content). An inline classification sends the element through the inline renderer, which collapses whitespace and escapes < > & in its text, and does so again on every formatting pass",
		Run: func(p *Prog, c *Ctx) {
			fn := p.MustFn("formatter.isInlineAtom")
			var atomPkg *types.Package
			for _, imp := range p.PkgBy[formatterPkg].Types.Imports() {
				if imp.Path() == "golang.org/x/net/html/atom" {
					atomPkg = imp
				}
			}
			if atomPkg == nil {
				undecided("formatter does not import x/net/html/atom")
			}
			have := map[int64]bool{}
			collect := func(f *ssa.Function) {
				eachInstr(f, func(in ssa.Instruction) {
					for _, op := range in.Operands(nil) {
						if op == nil || *op == nil {
							continue
						}
						if cst, ok := (*op).(*ssa.Const); ok && cst.Value != nil && cst.Value.Kind() == constant.Int && isNamed(cst.Type(), "golang.org/x/net/html/atom", "Atom") {
							if k, ok := constant.Int64Val(cst.Value); ok {
								have[k] = true
							}
						}
					}
				})
			}
			collect(fn)
			// a package-level table initialised in init()
			for _, init := range p.Inits {
				if pk := funcPkg(init); pk != nil && pk.Path() == formatterPkg {
					eachInstr(fn, func(in ssa.Instruction) {
						if ld, ok := in.(*ssa.UnOp); ok {
							if g, ok := ld.X.(*ssa.Global); ok {
								eachInstr(init, func(x ssa.Instruction) {
									if st, ok := x.(*ssa.Store); ok && st.Addr == ssa.Value(g) {
										collect(init)
									}
								})
							}
						}
					})
				}
			}
			c.check(len(have) >= 10, "inline table found", p.pos(fn.Pos()), fmt.Sprintf("%d inline elements", len(have)), "the inline-element table was not found")
			for _, name := range []string{"Script", "Style", "Pre", "Textarea"} {
				o, ok := atomPkg.Scope().Lookup(name).(*types.Const)
				if !ok {
					undecided("atom.%s not found", name)
				}
				k, _ := constant.Int64Val(o.Val())
				c.check(!have[k], "inline table has no "+strings.ToLower(name), p.pos(fn.Pos()), "not classified inline", "<"+strings.ToLower(name)+"> is classified as an inline element: inside a paragraph, heading or table cell it is rendered by the inline renderer, which collapses the whitespace of its content and escapes < > & in it (a script body is altered, and altered again on every pass)")
			}
		},
	})
}

func init() {
	register(&Rule{
		ID: "C19.R8", Props: []string{"C19"}, Min: 2,
		Doc: "text is never re-indented line by line: outside script/style, the text of a text node reaches the output through trimming, the escaper and inline whitespace normalisation only — it is not handed to anything that splits it at newlines and rewrites the lines (strings.Split on \"\\n\", a per-line indenter). Indenting the continuation lines of a multi-line text node adds another indent step on every formatting pass, so formatting its own output changes it",
		Run: func(p *Prog, c *Ctx) {
			t := newTaint(p)
			t.Scope = func(fn *ssa.Function) bool { pk := funcPkg(fn); return pk != nil && pk.Path() == formatterPkg }
			t.FollowField = func(*types.Var) bool { return false }
			// functions of the formatter package that take a string apart at newlines
			lineSplitter := map[*ssa.Function]bool{}
			for _, fn := range p.Funcs {
				if pk := funcPkg(fn); pk == nil || pk.Path() != formatterPkg {
					continue
				}
				for _, site := range callsIn(fn) {
					switch calleeName(site.Common()) {
					case "strings.Split", "strings.SplitN", "strings.SplitAfter", "strings.SplitSeq", "strings.Lines":
						if len(site.Common().Args) > 1 {
							if k, ok := constString(site.Common().Args[1]); ok && !strings.Contains(k, "\n") {
								continue
							}
						}
						for _, o := range p.origins(site.Common().Args[0], OriginOpts{}) {
							if prm, ok := o.(*ssa.Parameter); ok && prm.Parent() == fn {
								lineSplitter[fn] = true
							}
						}
					}
				}
			}
			t.Sink = func(u ssa.Instruction, v ssa.Value) string {
				site, ok := u.(ssa.CallInstruction)
				if !ok {
					return ""
				}
				if r, _ := p.rawTextBranch(site.Block()); r || p.formatterRawOnly(site.Parent(), 0) {
					return ""
				}
				if callee := site.Common().StaticCallee(); callee != nil && lineSplitter[callee] {
					for i, a := range site.Common().Args {
						if a == v && i < len(callee.Params) && isString(callee.Params[i].Type()) {
							return "handed to " + shortName(callee) + ", which rewrites it line by line"
						}
					}
				}
				switch calleeName(site.Common()) {
				case "strings.Split", "strings.SplitN", "strings.SplitAfter", "strings.SplitSeq", "strings.Lines":
					if site.Common().Args[0] == v {
						if len(site.Common().Args) > 1 {
							if k, ok := constString(site.Common().Args[1]); ok && !strings.Contains(k, "\n") {
								return ""
							}
						}
						return "split into lines"
					}
				}
				return ""
			}
			// do not follow the text into the line splitters themselves (they are the sink)
			t.StopCall = func(site ssa.CallInstruction, arg ssa.Value) bool {
				callee := site.Common().StaticCallee()
				return callee != nil && lineSplitter[callee]
			}
			loads := p.formatterTextLoads()
			for _, ld := range loads {
				t.Seed(ld, "text Data loaded at "+p.instrPos(ld))
			}
			t.Run()
			c.check(len(loads) >= 3, "formatter reads text nodes", "-", fmt.Sprintf("%d text read(s) followed; %d line-rewriting helper(s) in the package", len(loads), len(lineSplitter)), "fewer text reads than expected")
			for _, h := range t.Hits {
				c.fail(shortName(h.At.Parent())+": text "+h.What, p.instrPos(h.At), "the text of a text node is "+h.What+" ("+shortWhy(h.Why)+"): the continuation lines of a multi-line text node get one more indent step on every pass, so Format(Format(x)) differs from Format(x)")
			}
			c.ok("text flow", "-", "no text node content reaches a line-by-line rewriter outside script/style")
		},
	})
}

func init() {
	register(&Rule{
		ID: "C20.R8", Props: []string{"C20"}, Min: 2,
		Doc: "Markdown source that stands for text is resolved before it is used: what the parser hands out unresolved — the segment of a (non-raw) Text node, the Destination and Title of links and images — reaches a template variable, a buffer or an escaper only after backslash escapes and character references were resolved (goldmark's HTML writer, util.UnescapePunctuations + util.Resolve…, util.URLEscape with resolution). An escape-only function (util.EscapeHTML, html.EscapeString) or a plain string conversion leaves `&amp;` to be escaped once more (`&amp;amp;`) and `\\*` with its backslash. Code (spans, blocks) and raw HTML are verbatim by definition and exempt",
		Run: func(p *Prog, c *Ctx) {
			t := newTaint(p)
			t.Scope = func(fn *ssa.Function) bool { pk := funcPkg(fn); return pk != nil && pk.Path() == markdownPkg }
			t.FollowField = func(*types.Var) bool { return false }
			resolver := func(n string) bool {
				switch {
				case strings.HasSuffix(n, "goldmark/util.UnescapePunctuations"), strings.HasSuffix(n, "goldmark/util.ResolveNumericReferences"), strings.HasSuffix(n, "goldmark/util.ResolveEntityNames"), strings.HasSuffix(n, "goldmark/util.URLEscape"):
					return true
				case strings.Contains(n, "goldmark/renderer/html.") && (strings.HasSuffix(n, ".Write") || strings.HasSuffix(n, ".RawWrite") || strings.HasSuffix(n, ".SecureWrite")):
					return true
				}
				return false
			}
			t.Sanitizer = func(site ssa.CallInstruction, arg ssa.Value) bool { return resolver(calleeName(site.Common())) }
			verbatimFn := func(fn *ssa.Function) bool {
				for _, prm := range rootFunc(fn).Params {
					s := typeShort(prm.Type())
					if strings.HasSuffix(s, "ast.CodeSpan") || strings.HasSuffix(s, "ast.CodeBlock") || strings.HasSuffix(s, "ast.FencedCodeBlock") || strings.HasSuffix(s, "ast.HTMLBlock") || strings.HasSuffix(s, "ast.RawHTML") {
						return true
					}
				}
				n := shortName(rootFunc(fn))
				return strings.Contains(n, "codeBlockContent") || strings.Contains(n, "codeSpanContent")
			}
			rawGuarded := func(b *ssa.BasicBlock) bool {
				return enteredOnlyUnder(b, func(cnd ssa.Value, want bool) bool {
					cl, ok := cnd.(*ssa.Call)
					return ok && want && strings.HasSuffix(calleeName(&cl.Call), ".IsRaw")
				})
			}
			// a raw Text node (code) is verbatim by definition: what is written under `IsRaw()` is not followed
			t.StopCall = func(site ssa.CallInstruction, arg ssa.Value) bool {
				return verbatimFn(site.Parent()) || rawGuarded(site.Block())
			}
			t.Sink = func(u ssa.Instruction, v ssa.Value) string {
				if verbatimFn(u.Parent()) || rawGuarded(u.Block()) {
					return ""
				}
				switch x := u.(type) {
				case ssa.CallInstruction:
					n := calleeName(x.Common())
					args := callArgs(x.Common())
					switch {
					case strings.HasSuffix(n, "goldmark/util.EscapeHTML") || isEscapeCall(x.Common()):
						return "escaped by " + n + " without resolving escapes and character references"
					case (n == "(*bytes.Buffer).Write" || n == "(*bytes.Buffer).WriteString" || n == "(*strings.Builder).Write" || n == "(*strings.Builder).WriteString" || n == "io.WriteString" || n == "io.Writer.Write") && len(args) > 1 && args[1] == v:
						return "written unresolved through " + n
					}
				case *ssa.MapUpdate:
					if x.Value == v || unwrapIface(x.Value) == v {
						k, _ := constString(unwrapIface(x.Key))
						return "handed to a template as `" + k + "` unresolved"
					}
				}
				return ""
			}
			seeds := 0
			for _, fn := range p.Funcs {
				if pk := funcPkg(fn); pk == nil || pk.Path() != markdownPkg || verbatimFn(fn) {
					continue
				}
				eachInstr(fn, func(in ssa.Instruction) {
					switch x := in.(type) {
					case *ssa.UnOp:
						if fv := loadedField(x); fv != nil && (fv.Name() == "Destination" || fv.Name() == "Title") && fv.Pkg() != nil && strings.HasSuffix(fv.Pkg().Path(), "goldmark/ast") {
							seeds++
							t.Seed(x, fv.Name()+" loaded at "+p.instrPos(x))
						}
					case *ssa.Call:
						if !strings.HasSuffix(calleeName(&x.Call), "text.Segment).Value") || rawGuarded(x.Block()) {
							return
						}
						// the segment of a Text node
						recv := x.Call.Args[0]
						isText := false
						for _, o := range append(p.origins(recv, OriginOpts{}), recv) {
							if fa, ok := o.(*ssa.FieldAddr); ok && strings.HasSuffix(typeShort(fa.X.Type()), "ast.Text") {
								isText = true
							}
							if ld, ok := o.(*ssa.UnOp); ok {
								if fa, ok := ld.X.(*ssa.FieldAddr); ok && strings.HasSuffix(typeShort(fa.X.Type()), "ast.Text") {
									isText = true
								}
							}
						}
						if isText {
							seeds++
							t.Seed(x, "Text segment read at "+p.instrPos(x))
						}
					}
				})
			}
			t.Run()
			c.check(seeds >= 4, "unresolved source text found", "-", fmt.Sprintf("%d reads of destinations, titles and text segments followed", seeds), "fewer reads of unresolved Markdown source than expected")
			for _, h := range t.Hits {
				c.fail(shortName(h.At.Parent())+": source text "+h.What, p.instrPos(h.At), "Markdown source text is "+h.What+" ("+shortWhy(h.Why)+"): a character reference in it is escaped a second time (`&amp;` shows as `&amp;amp;`), numeric and named references stay as written, and `\\*` keeps its backslash")
			}
			c.ok("flows", "-", "every destination, title and text segment passes a resolving function before it is used")
			// the info string of a fenced code block is text as well (`a&amp;b`, `a\*b`), although the block's
			// content is verbatim: followed on its own, without the exemption of the code renderers
			t2 := newTaint(p)
			t2.Scope = t.Scope
			t2.FollowField = t.FollowField
			t2.Sanitizer = t.Sanitizer
			t2.Sink = func(u ssa.Instruction, v ssa.Value) string {
				if x, ok := u.(*ssa.MapUpdate); ok && (x.Value == v || unwrapIface(x.Value) == v) {
					k, _ := constString(unwrapIface(x.Key))
					return "handed to a template as `" + k + "` unresolved"
				}
				return ""
			}
			langs := 0
			for _, fn := range p.Funcs {
				if pk := funcPkg(fn); pk == nil || pk.Path() != markdownPkg {
					continue
				}
				for _, site := range callsIn(fn) {
					if cv, ok := site.(*ssa.Call); ok && strings.HasSuffix(calleeName(site.Common()), "ast.FencedCodeBlock).Language") {
						langs++
						t2.Seed(cv, "info string read at "+p.instrPos(site))
					}
				}
			}
			t2.Run()
			if langs > 0 {
				c.ok("info strings", "-", fmt.Sprintf("%d reads of a fenced code block's info string followed", langs))
			}
			for _, h := range t2.Hits {
				c.fail(shortName(h.At.Parent())+": info string "+h.What, p.instrPos(h.At), "the info string of a fenced code block is "+h.What+" ("+shortWhy(h.Why)+"): ```a&amp;b gets class `language-a&amp;amp;b` and ```a\\*b keeps its backslash, where the reference renderer writes language-a&amp;b and language-a*b")
			}
		},
	})
}

func init() {
	register(&Rule{
		ID: "C11.R8", Props: []string{"C11", "C20"}, Min: 3,
		Doc: "`last element` accesses are guarded: wherever a slice or string is indexed or sliced at a position counted from its end (x[len(x)-k], x[:len(x)-k]), a check that x has at least k elements controls the access — `len(x) > 0`, `len(x) >= k`, `len(x) != 0`, `x != \"\"`, a HasSuffix/HasPrefix test that implies it, or the early return for the empty case. An unguarded one panics with index out of range on empty input (an empty list item, an empty attribute), and no render path recovers",
		Run: func(p *Prog, c *Ctx) {
			n := 0
			for _, fn := range p.Funcs {
				eachInstr(fn, func(in ssa.Instruction) {
					var base, idx ssa.Value
					what := ""
					switch x := in.(type) {
					case *ssa.IndexAddr:
						base, idx, what = x.X, x.Index, "indexed"
					case *ssa.Index:
						base, idx, what = x.X, x.Index, "indexed"
					case *ssa.Slice:
						if x.High != nil {
							base, idx, what = x.X, x.High, "sliced"
						}
					case *ssa.Lookup:
						if isString(x.X.Type()) {
							base, idx, what = x.X, x.Index, "indexed"
						}
					}
					if base == nil {
						return
					}
					bo, ok := idx.(*ssa.BinOp)
					if !ok || bo.Op != token.SUB {
						return
					}
					k, isK := constInt(bo.Y)
					ln := isCallNamed(bo.X, "builtin.len")
					if !isK || k < 1 || ln == nil {
						return
					}
					same := func(v ssa.Value) bool {
						return v == base || sameValue(v, base) || (accessPath(v) != "" && accessPath(v) == accessPath(base))
					}
					if !same(ln.Call.Args[0]) {
						return
					}
					n++
					// the scope list of a Stack is never empty (C17.R2: Pop re-creates the root scope, constructors make one)
					if fv := loadedField(base); fv != nil && fieldIs(fv, "stack") && k == 1 {
						if pk := fv.Pkg(); pk != nil && pk.Path() == modPath {
							c.ok(fmt.Sprintf("%s: %s at len-%d#%d", shortName(fn), what, k, n), p.instrPos(in), "the scope list always holds the root scope (C17.R2)")
							return
						}
					}
					base0 := lenImplies(same, k, 0)
					implies := func(cnd ssa.Value, want bool) bool {
						if base0(cnd, want) {
							return true
						}
						// a test of the index itself: `last := len(x) - 1; if last >= 0`
						if op, x, y, ok := relationOnEdge(cnd, want); ok && (x == idx || sameValue(x, idx)) {
							if m, isK := constInt(y); isK {
								return (op == token.GEQ && m >= 0) || (op == token.GTR && m >= -1) || (op == token.NEQ && m == -1 && k == 1)
							}
						}
						return false
					}
					// a block that grows the value (x = append(x, …)) also establishes it
					grows := func(b *ssa.BasicBlock) bool {
						for _, x := range b.Instrs {
							if st, ok := x.(*ssa.Store); ok {
								if cl := isCallNamed(st.Val, "builtin.append"); cl != nil && accessPath(st.Addr) != "" {
									if ld, ok := base.(*ssa.UnOp); ok && accessPath(ld.X) == accessPath(st.Addr) {
										return true
									}
								}
							}
						}
						return false
					}
					_ = grows
					guarded := enteredOnlyUnder(in.Block(), implies) || everyPathCrosses(in.Block(), implies)
					c.check(guarded, fmt.Sprintf("%s: %s at len-%d#%d", shortName(fn), what, k, n), p.instrPos(in), fmt.Sprintf("guarded by a length check for at least %d element(s)", k), fmt.Sprintf("the value is %s at len-%d without a check that it has %d element(s): on empty input the access panics with index out of range, and no render path recovers from a panic", what, k, k))
				})
			}
			c.check(n >= 3, "end-relative accesses found", "-", fmt.Sprintf("%d accesses counted from the end examined", n), "fewer end-relative accesses than expected")
		},
	})
}

// lenImplies returns a predicate over branch conditions: taking the edge implies that the value
// recognised by same has at least k elements / bytes.
func lenImplies(same func(ssa.Value) bool, k int64, depth int) func(cnd ssa.Value, want bool) bool {
	lenOf := func(v ssa.Value) bool {
		cl := isCallNamed(v, "builtin.len")
		return cl != nil && same(cl.Call.Args[0])
	}
	// lenPlus: v is len(x) + off for a constant off (`last := len(x) - 1`)
	lenPlus := func(v ssa.Value) (int64, bool) {
		if b, ok := v.(*ssa.BinOp); ok && (b.Op == token.SUB || b.Op == token.ADD) && lenOf(b.X) {
			if c, ok := constInt(b.Y); ok {
				if b.Op == token.SUB {
					return -c, true
				}
				return c, true
			}
		}
		return 0, false
	}
	var implies func(cnd ssa.Value, want bool) bool
	implies = func(cnd ssa.Value, want bool) bool {
		if op, x, y, ok := relationOnEdge(cnd, want); ok {
			if off, isLenPlus := lenPlus(x); isLenPlus {
				// len(x)+off op m  ⇔  len(x) op m-off
				if m, ok := constInt(y); ok {
					m -= off
					switch op {
					case token.GTR:
						return m >= k-1
					case token.GEQ:
						return m >= k
					case token.EQL:
						return m >= k
					case token.NEQ:
						return m == 0 && k == 1
					}
				}
			}
			if lenOf(x) {
				if m, ok := constInt(y); ok {
					switch op {
					case token.GTR:
						return m >= k-1
					case token.GEQ:
						return m >= k
					case token.NEQ:
						return m == 0 && k == 1
					case token.EQL:
						return m >= k
					}
				}
			}
			if lenOf(y) {
				if m, ok := constInt(x); ok {
					switch op {
					case token.LSS:
						return m >= k-1
					case token.LEQ:
						return m >= k
					}
				}
				// a loop counter below len(x)
				if op == token.LSS && k == 1 {
					return true
				}
			}
			if same(x) && op == token.NEQ && k == 1 {
				if s, ok := constString(y); ok && s == "" {
					return true
				}
			}
		}
		cl, ok := cnd.(*ssa.Call)
		if !ok || !want {
			return false
		}
		switch calleeName(&cl.Call) {
		case "strings.HasSuffix", "strings.HasPrefix", "bytes.HasSuffix", "bytes.HasPrefix":
			if same(cl.Call.Args[0]) {
				affix := cl.Call.Args[1]
				if cv, ok := affix.(*ssa.Convert); ok {
					affix = cv.X // []byte("---")
				}
				if s, ok := constString(affix); ok && int64(len(s)) >= k {
					return true
				}
			}
			return false
		}
		// a predicate of the module over the same value: true only when the length is there
		callee := cl.Call.StaticCallee()
		if callee == nil || !inModule(callee) || depth > 1 || len(callee.Params) == 0 {
			return false
		}
		pi := -1
		for i, a := range cl.Call.Args {
			if same(a) && i < len(callee.Params) {
				pi = i
			}
		}
		if pi < 0 {
			return false
		}
		prm := callee.Params[pi]
		inner := lenImplies(func(v ssa.Value) bool { return v == ssa.Value(prm) }, k, depth+1)
		// `a && b`: with two different one-byte affixes the value has at least two bytes
		affixes := map[string]bool{}
		for _, site := range callsIn(callee) {
			switch calleeName(site.Common()) {
			case "strings.HasSuffix", "strings.HasPrefix":
				if site.Common().Args[0] == ssa.Value(prm) {
					if s, ok := constString(site.Common().Args[1]); ok {
						affixes[calleeName(site.Common())+s] = true
					}
				}
			}
		}
		for _, r := range returnsOf(callee) {
			for _, alt := range alternatives(r.Results[0], r.Block()) {
				if cst, ok := alt.V.(*ssa.Const); ok && cst.Value != nil && cst.Value.String() == "false" {
					continue
				}
				if inner(alt.V, true) || alt.holdsFor(inner) {
					continue
				}
				if k == 2 && len(affixes) >= 2 && alt.holdsFor(lenImplies(func(v ssa.Value) bool { return v == ssa.Value(prm) }, 1, depth+1)) {
					continue
				}
				return false
			}
		}
		return true
	}
	return implies
}

func init() {
	register(&Rule{
		ID: "C16.R6", Props: []string{"C16"}, Min: 2,
		Doc: "v-once ids are numbered by a counter that only moves forward over the whole walk: the number put into a `v-once-id` comes either from one variable shared by the entire walk (incremented after every use, never reset or copied per subtree), or from a value threaded through the recursion — and then every call that continues the walk hands its result on: the function returns what its recursive calls returned (not the value it had before descending), and a caller looping over roots feeds each result into the next call. A counter that is rewound after a subtree gives two different v-once elements the same id, and the later one is suppressed",
		Run: func(p *Prog, c *Ctx) {
			n := 0
			for _, fn := range p.Funcs {
				for _, site := range callsIn(fn) {
					if calleeName(site.Common()) != "helpers.SetAttr" || len(site.Common().Args) < 3 {
						continue
					}
					if k, ok := constString(site.Common().Args[1]); !ok || k != "v-once-id" {
						continue
					}
					n++
					// the number: argument of strconv.Itoa / fmt.Sprint inside the id
					var num ssa.Value
					var findNum func(v ssa.Value, d int)
					findNum = func(v ssa.Value, d int) {
						if v == nil || d > 8 || num != nil {
							return
						}
						switch x := v.(type) {
						case *ssa.BinOp:
							findNum(x.X, d+1)
							findNum(x.Y, d+1)
						case *ssa.Call:
							nm := calleeName(&x.Call)
							if nm == "strconv.Itoa" || nm == "strconv.FormatInt" {
								num = x.Call.Args[0]
								return
							}
							for _, a := range x.Call.Args {
								findNum(a, d+1)
							}
						case *ssa.Convert:
							findNum(x.X, d+1)
						case *ssa.Slice:
							findNum(x.X, d+1)
						case *ssa.Alloc:
							for _, u := range *x.Referrers() {
								if ia, ok := u.(*ssa.IndexAddr); ok {
									for _, uu := range *ia.Referrers() {
										if st, ok := uu.(*ssa.Store); ok {
											findNum(st.Val, d+1)
										}
									}
								}
							}
						case *ssa.MakeInterface:
							if b, ok := x.X.Type().Underlying().(*types.Basic); ok && b.Info()&types.IsInteger != 0 {
								num = x.X
								return
							}
							findNum(x.X, d+1)
						}
					}
					findNum(site.Common().Args[2], 0)
					key := fmt.Sprintf("%s: v-once id#%d", shortName(fn), n)
					if num == nil {
						c.fail(key, p.instrPos(site), "the v-once id carries no running number: distinct v-once elements of one file share an id")
						continue
					}
					// (a) a shared variable
					if ld, ok := num.(*ssa.UnOp); ok && ld.Op == token.MUL {
						if cell := cellOf(ld.X); cell != nil {
							okCell, why := true, ""
							incs := 0
							for _, st := range storesToCell(cell) {
								if _, isK := constInt(st.Val); isK {
									if st.Parent() != cell.Parent() || loopHeaderOf(st.Block()) != nil {
										okCell, why = false, "the counter is reset at "+p.instrPos(st)
									}
									continue
								}
								bo, isB := st.Val.(*ssa.BinOp)
								if isB && bo.Op == token.ADD {
									if l2, ok := bo.X.(*ssa.UnOp); ok && cellOf(l2.X) == cell {
										if k, ok := constInt(bo.Y); ok && k > 0 {
											incs++
											continue
										}
									}
								}
								okCell, why = false, "the counter is overwritten at "+p.instrPos(st)+" with something other than itself plus a positive constant"
							}
							if incs == 0 && okCell {
								okCell, why = false, "the counter is never incremented"
							}
							c.check(okCell, key, p.instrPos(site), "one shared counter, only ever incremented", "the counter behind the v-once ids does not only move forward ("+why+"): two distinct v-once elements can get the same id, and the later one is suppressed by the earlier one")
							continue
						}
					}
					// (a') a field of one object shared by the walk through a pointer (a small walker struct)
					if ld, ok := num.(*ssa.UnOp); ok && ld.Op == token.MUL {
						if fa, ok := ld.X.(*ssa.FieldAddr); ok {
							fv := fieldVar(fa)
							_, byPtr := fa.X.Type().Underlying().(*types.Pointer)
							okFld, why := byPtr, ""
							if !byPtr {
								why = "the walker holding the counter is not shared through a pointer"
							}
							incs := 0
							for _, g := range p.Funcs {
								eachInstr(g, func(in ssa.Instruction) {
									st, isSt := in.(*ssa.Store)
									if !isSt || fieldVar(st.Addr) != fv || fv == nil {
										return
									}
									if _, isK := constInt(st.Val); isK {
										if loopHeaderOf(st.Block()) != nil || p.inRecursion(g) {
											okFld, why = false, "the counter is reset at "+p.instrPos(st)
										}
										return
									}
									if bo, isB := st.Val.(*ssa.BinOp); isB && bo.Op == token.ADD {
										if l2, ok := bo.X.(*ssa.UnOp); ok && fieldVar(l2.X) == fv {
											if k, ok := constInt(bo.Y); ok && k > 0 {
												incs++
												return
											}
										}
									}
									okFld, why = false, "the counter is overwritten at "+p.instrPos(st)+" with something other than itself plus a positive constant"
								})
							}
							if okFld && incs == 0 {
								okFld, why = false, "the counter is never incremented"
							}
							c.check(okFld, key, p.instrPos(site), "one counter field of a walker shared by pointer, only ever incremented", "the counter behind the v-once ids does not only move forward ("+why+"): two distinct v-once elements can get the same id, and the later one is suppressed by the earlier one")
							continue
						}
					}
					// (b) threaded through the recursion as a parameter
					root := rootFunc(fn)
					var prm *ssa.Parameter
					pi := -1
					for _, o := range p.origins(num, OriginOpts{}) {
						if q, ok := o.(*ssa.Parameter); ok && q.Parent() == fn {
							prm = q
						}
						if bo, ok := o.(*ssa.BinOp); ok {
							for _, oo := range p.origins(bo.X, OriginOpts{}) {
								if q, ok := oo.(*ssa.Parameter); ok && q.Parent() == fn {
									prm = q
								}
							}
						}
					}
					if prm == nil {
						c.fail(key, p.instrPos(site), "the number in the v-once id ("+describeValue(num)+") comes neither from a counter shared by the walk nor from a value threaded through it")
						continue
					}
					for i, q := range fn.Params {
						if q == prm {
							pi = i
						}
					}
					_ = root
					isCallToFn := func(v ssa.Value) bool {
						cl, ok := v.(*ssa.Call)
						return ok && cl.Call.StaticCallee() == fn
					}
					fromCall := func(v ssa.Value) bool {
						for _, o := range p.origins(v, OriginOpts{}) {
							if isCallToFn(o) {
								return true
							}
							if bo, ok := o.(*ssa.BinOp); ok {
								for _, oo := range p.origins(bo.X, OriginOpts{}) {
									if isCallToFn(oo) {
										return true
									}
								}
							}
						}
						return false
					}
					okThread, why := true, ""
					var recCalls []ssa.CallInstruction
					for _, s2 := range callsIn(fn) {
						if s2.Common().StaticCallee() == fn {
							recCalls = append(recCalls, s2)
						}
					}
					for _, r := range returnsOf(fn) {
						after := false
						for _, s2 := range recCalls {
							if canFollow(s2, r) {
								after = true
							}
						}
						if after && (len(r.Results) == 0 || !fromCall(r.Results[0])) {
							okThread, why = false, "the function returns a value that does not come from its recursive calls (return at "+p.instrPos(r)+"): numbers handed out inside the subtree are handed out again after it"
						}
					}
					for _, s2 := range recCalls {
						if loopHeaderOf(s2.Block()) != nil && pi < len(s2.Common().Args) && !fromCall(s2.Common().Args[pi]) {
							okThread, why = false, "a recursive call inside the child loop at "+p.instrPos(s2)+" does not receive the previous call's result"
						}
					}
					for _, s2 := range p.Callers(fn) {
						if s2.Parent() == fn {
							continue
						}
						if loopHeaderOf(s2.Block()) != nil && pi < len(s2.Common().Args) {
							fed := false
							for _, o := range p.origins(s2.Common().Args[pi], OriginOpts{}) {
								if cl, ok := o.(*ssa.Call); ok && cl.Call.StaticCallee() == fn {
									fed = true
								}
							}
							if !fed {
								okThread, why = false, "the loop over the roots at "+p.instrPos(s2)+" does not feed a call's result into the next call"
							}
						}
					}
					c.check(okThread, key, p.instrPos(site), "threaded counter: every continuation hands its result on", "the number threaded through the v-once walk is rewound: "+why+" — two distinct v-once elements get the same id and the later one is suppressed")
				}
			}
			c.check(n >= 1, "v-once ids are assigned", "-", fmt.Sprintf("%d id assignment(s) examined", n), "no v-once id assignment found")
		},
	})
}

// inRecursion: the function is part of a recursive cycle of the call graph.
func (p *Prog) inRecursion(fn *ssa.Function) bool {
	for _, comp := range p.recursiveSCCs() {
		for _, f := range comp {
			if f == fn {
				return true
			}
		}
	}
	return false
}

// outerLinksAcyclic: the `outer` link of a slot scope is written only on a scope that was created in
// the same function (fresh), with the scope that was current before the new one is installed — so the
// chain of outer links only leads to older scopes and ends.
func (p *Prog) outerLinksAcyclic() (bool, string) {
	n := 0
	for _, fn := range p.Funcs {
		bad := ""
		eachInstr(fn, func(in ssa.Instruction) {
			st, ok := in.(*ssa.Store)
			if !ok {
				return
			}
			fv := fieldVar(st.Addr)
			if fv == nil || !fieldIs(fv, "outer") || fv.Pkg() == nil || fv.Pkg().Path() != modPath {
				return
			}
			n++
			fa := st.Addr.(*ssa.FieldAddr)
			fresh := false
			var freshVals []ssa.Value
			for _, o := range p.origins(fa.X, OriginOpts{}) {
				switch x := o.(type) {
				case *ssa.Alloc:
					fresh = true
					freshVals = append(freshVals, x)
				case *ssa.Call:
					if n := calleeName(&x.Call); strings.HasSuffix(n, "extractSlotContent") || strings.HasSuffix(n, "NewSlotScope") {
						fresh = true
						freshVals = append(freshVals, x)
					}
				}
			}
			if !fresh {
				bad = "the outer link of an existing slot scope is rewritten at " + p.instrPos(st)
				return
			}
			for _, o := range p.origins(st.Val, OriginOpts{}) {
				for _, f := range freshVals {
					if o == f {
						bad = "a slot scope is made its own outer scope at " + p.instrPos(st)
					}
				}
			}
		})
		if bad != "" {
			return false, bad
		}
	}
	return true, ""
}
