package main

import (
	"fmt"
	"go/token"
	"go/types"
	"sort"
	"strings"

	"golang.org/x/tools/go/ssa"
)

// C11.R7 — what a recursive cycle re-enters on.
//
// A recursion over the DOM is bounded because every call works on a piece of the caller's own
// (finite) tree. C11.R3 classifies the cycles; this rule looks at every single recursive edge and
// asks where its node arguments come from. Accepted sources:
//
//	subtree   the caller's own node parameters, children/siblings reached from them, slices built
//	          of those, clones of those, and what calls into the cycle returned (evaluated output)
//	file      nodes parsed from a file the cycle loaded — bounded by the include-depth guard (C11.R3)
//	slot      nodes kept in a SlotContent — the content the user of a component supplied. It is a
//	          different tree, so the edge needs its own argument: a <slot> inside that content must
//	          not be able to find the same content again. Accepted when the context handed to the
//	          evaluator has had the scope the content was found in removed (`ctx.SlotScope = nil`
//	          for content found through the component's scope, the reserved `__slotScope__` key
//	          shadowed with nil for content inherited from the page of a layout chain).
//
// Anything else (a field of some other long-lived object, a global, the result of an unknown call)
// is reported: the recursion continues on a tree nothing bounds.

type srcLeaf struct {
	kind   string // subtree | evaluated | file | slot | foreign
	v      ssa.Value
	detail string
}

type srcWalker struct {
	p    *Prog
	in   map[*ssa.Function]bool
	seen map[ssa.Value]bool
	out  []srcLeaf
}

func htmlNodeStruct(t types.Type) bool {
	if pt, ok := t.Underlying().(*types.Pointer); ok {
		t = pt.Elem()
	}
	n, ok := t.(*types.Named)
	if !ok || n.Obj().Pkg() == nil {
		return false
	}
	path := n.Obj().Pkg().Path()
	return (path == "golang.org/x/net/html" && n.Obj().Name() == "Node") || strings.HasPrefix(path, "github.com/yuin/goldmark")
}

func nodeCarrying(t types.Type) bool {
	return isNodeLike(t) || isNodeSlice(t) || hasNodeType(t, 0)
}

func (w *srcWalker) leaf(kind string, v ssa.Value, detail string) {
	w.out = append(w.out, srcLeaf{kind, v, detail})
}

func (w *srcWalker) walk(v ssa.Value, depth int) {
	if v == nil || w.seen[v] {
		return
	}
	w.seen[v] = true
	if depth > 40 {
		w.leaf("foreign", v, "value flow too deep to follow")
		return
	}
	switch x := v.(type) {
	case *ssa.Parameter:
		w.leaf("subtree", v, "parameter "+x.Name())
	case *ssa.Const:
	case *ssa.Phi:
		for _, e := range x.Edges {
			w.walk(e, depth+1)
		}
	case *ssa.ChangeType:
		w.walk(x.X, depth+1)
	case *ssa.Convert:
		w.walk(x.X, depth+1)
	case *ssa.MakeInterface:
		w.walk(x.X, depth+1)
	case *ssa.ChangeInterface:
		w.walk(x.X, depth+1)
	case *ssa.TypeAssert:
		w.walk(x.X, depth+1)
	case *ssa.Slice:
		w.walk(x.X, depth+1)
	case *ssa.Index:
		w.walk(x.X, depth+1)
	case *ssa.Lookup:
		w.walk(x.X, depth+1)
	case *ssa.Extract:
		switch t := x.Tuple.(type) {
		case *ssa.Next:
			if r, ok := t.Iter.(*ssa.Range); ok {
				w.walk(r.X, depth+1)
				return
			}
			w.leaf("foreign", v, "iterator")
		case *ssa.TypeAssert:
			w.walk(t.X, depth+1)
		case *ssa.Lookup:
			w.walk(t.X, depth+1)
		case *ssa.Call:
			w.call(t, x.Index, v, depth)
		default:
			w.leaf("foreign", v, describeValue(v))
		}
	case *ssa.Call:
		w.call(x, 0, v, depth)
	case *ssa.MakeSlice, *ssa.Alloc, *ssa.MakeMap:
		// fresh container: what is stored into it
		w.elements(v, depth)
	case *ssa.FieldAddr, *ssa.IndexAddr:
		// an address used as a value (e.g. &arr[0] of a slice literal): its base
		w.addr(v, depth)
	case *ssa.FreeVar:
		if cell := cellOf(x); cell != nil {
			for _, st := range storesToCell(cell) {
				w.walk(st.Val, depth+1)
			}
			return
		}
		w.leaf("foreign", v, "captured variable "+x.Name())
	case *ssa.UnOp:
		if x.Op != token.MUL {
			w.leaf("foreign", v, describeValue(v))
			return
		}
		if cell := cellOf(x.X); cell != nil {
			sts := storesToCell(cell)
			for _, st := range sts {
				w.walk(st.Val, depth+1)
			}
			if len(sts) == 0 {
				w.elements(cell, depth)
			}
			return
		}
		w.addr(x.X, depth)
	case *ssa.Global:
		w.leaf("foreign", v, "package-level "+x.Name())
	default:
		w.leaf("foreign", v, describeValue(v))
	}
}

// addr: a load through this address.
func (w *srcWalker) addr(a ssa.Value, depth int) {
	switch x := a.(type) {
	case *ssa.FieldAddr:
		st := x.X.Type()
		if htmlNodeStruct(st) {
			// navigation inside a tree: FirstChild, NextSibling, Parent …
			w.walk(x.X, depth+1)
			return
		}
		name := typeShort(st) + "." + fieldName(x.X.Type(), x.Field)
		if pt, ok := st.Underlying().(*types.Pointer); ok {
			if n, ok := pt.Elem().(*types.Named); ok && n.Obj().Name() == "SlotContent" {
				w.leaf("slot", x, name)
				return
			}
		}
		// a field of a struct held in a local cell (context copies, composite literals): what was stored there
		if base, ok := x.X.(*ssa.Alloc); ok {
			found := false
			for _, u := range *base.Referrers() {
				if fa, ok := u.(*ssa.FieldAddr); ok && fa.Field == x.Field {
					for _, uu := range *fa.Referrers() {
						if st, ok := uu.(*ssa.Store); ok && st.Addr == ssa.Value(fa) {
							found = true
							w.walk(st.Val, depth+1)
						}
					}
				}
			}
			if found {
				return
			}
		}
		w.leaf("foreign", x, "field "+name)
	case *ssa.IndexAddr:
		w.walk(x.X, depth+1)
	case *ssa.Global:
		w.leaf("foreign", x, "package-level "+x.Name())
	case *ssa.UnOp, *ssa.Phi, *ssa.Parameter, *ssa.Call, *ssa.Extract:
		// *p where p is itself a value (pointer to node pointer): follow the pointer
		w.walk(x, depth+1)
	default:
		w.leaf("foreign", a, "load through "+describeValue(a))
	}
}

// elements: values stored into a fresh slice/array/map.
func (w *srcWalker) elements(c ssa.Value, depth int) {
	refs := c.Referrers()
	if refs == nil {
		return
	}
	for _, u := range *refs {
		switch x := u.(type) {
		case *ssa.IndexAddr:
			for _, uu := range *x.Referrers() {
				if st, ok := uu.(*ssa.Store); ok && st.Addr == ssa.Value(x) {
					w.walk(st.Val, depth+1)
				}
			}
		case *ssa.MapUpdate:
			if x.Map == c {
				w.walk(x.Value, depth+1)
			}
		case *ssa.Store:
			if x.Addr == c {
				w.walk(x.Val, depth+1)
			}
		case *ssa.Slice:
			// the slice view of the array: stores through it are found via IndexAddr on the slice
			w.elements(x, depth+1)
		}
	}
}

func (w *srcWalker) call(cl *ssa.Call, resIdx int, v ssa.Value, depth int) {
	name := calleeName(&cl.Call)
	if name == "builtin.append" {
		for _, a := range cl.Call.Args {
			w.walk(a, depth+1)
		}
		return
	}
	callees := w.p.Callees(cl)
	for _, callee := range callees {
		if w.in[callee] {
			w.leaf("evaluated", v, "result of "+shortName(callee))
			return
		}
	}
	callee := cl.Call.StaticCallee()
	switch {
	case strings.HasSuffix(name, "ParseTemplateBytes") || strings.Contains(name, "loadCachedWithFrontMatter") || strings.HasSuffix(name, "html.Parse") || strings.HasSuffix(name, "html.ParseFragment") || strings.HasSuffix(name, "html.ParseFragmentWithOptions"):
		w.leaf("file", v, "parsed by "+name)
		return
	case strings.HasSuffix(name, "(*vuego.SlotScope).GetSlot"):
		w.leaf("slot", v, "SlotScope.GetSlot")
		return
	case name == "(*sync.Pool).Get":
		w.leaf("subtree", v, "fresh object from a pool")
		return
	}
	if callee != nil && inModule(callee) && len(cl.Call.Args) > 0 && nodeCarrying(cl.Call.Args[0].Type()) && (isDeepCloner(w.p, callee) || strings.Contains(callee.Name(), "Clone")) {
		// a copy stands for what it was copied from
		w.walk(cl.Call.Args[0], depth+1)
		return
	}
	if callee != nil && inModule(callee) && len(callee.Blocks) > 0 {
		// a helper that returns nodes derived from its arguments (clone, filter, child list …): follow the
		// callee's results, with its parameters standing for the arguments
		sub := &srcWalker{p: w.p, in: w.in, seen: map[ssa.Value]bool{}}
		for _, r := range returnsOf(callee) {
			if resIdx < len(r.Results) {
				sub.walk(r.Results[resIdx], depth+1)
			}
		}
		for _, l := range sub.out {
			if prm, ok := l.v.(*ssa.Parameter); ok && l.kind == "subtree" && prm.Parent() == callee {
				for i, q := range callee.Params {
					if q == prm && i < len(cl.Call.Args) {
						w.walk(cl.Call.Args[i], depth+1)
					}
				}
				continue
			}
			if l.kind == "evaluated" || l.kind == "subtree" {
				// fresh nodes made inside the helper
				continue
			}
			w.out = append(w.out, l)
		}
		return
	}
	// library call: the result derives from node-carrying arguments, if any
	derived := false
	for _, a := range callArgs(&cl.Call) {
		if nodeCarrying(a.Type()) {
			derived = true
			w.walk(a, depth+1)
		}
	}
	if !derived {
		w.leaf("foreign", v, "result of "+name)
	}
}

func init() {
	register(&Rule{
		ID: "C11.R7", Props: []string{"C11", "C06"}, Min: 20,
		Doc: "every recursive edge re-enters on a bounded tree: the node arguments of each call that stays inside a recursive cycle come from the caller's own subtree (parameters, children, siblings, clones, evaluated output), from a file the cycle loaded (bounded by the include-depth guard), or from supplied slot content — and an edge that evaluates slot content hands on a context from which the scope that content was found in has been removed, so a <slot> inside the content cannot find the same content again",
		Run: func(p *Prog, c *Ctx) { runReentryRule(p, c) },
	})
}

func runReentryRule(p *Prog, c *Ctx) {
	sccs := p.recursiveSCCs()
	nEdges := 0
	for _, comp := range sccs {
		in := map[*ssa.Function]bool{}
		for _, f := range comp {
			in[f] = true
		}
		for _, f := range comp {
			k := 0
			for _, site := range callsIn(f) {
				rec := false
				for _, callee := range p.Callees(site) {
					if in[callee] {
						rec = true
					}
				}
				if !rec {
					continue
				}
				var nodeArgs []ssa.Value
				for _, a := range callArgs(site.Common()) {
					if nodeCarrying(a.Type()) {
						nodeArgs = append(nodeArgs, a)
					}
				}
				if len(nodeArgs) == 0 {
					continue
				}
				k++
				nEdges++
				key := fmt.Sprintf("%s → %s#%d", shortName(f), calleeName(site.Common()), k)
				w := &srcWalker{p: p, in: in, seen: map[ssa.Value]bool{}}
				for _, a := range nodeArgs {
					w.walk(a, 0)
				}
				kinds := map[string]bool{}
				var foreign []string
				for _, l := range w.out {
					kinds[l.kind] = true
					if l.kind == "foreign" {
						foreign = append(foreign, l.detail+" at "+p.instrPosOf(l.v))
					}
				}
				sort.Strings(foreign)
				switch {
				case len(foreign) > 0:
					c.fail(key, p.instrPos(site), "the recursion continues on nodes that are neither part of the caller's tree, nor parsed from a loaded file, nor supplied slot content: "+strings.Join(foreign, "; ")+" — nothing bounds the depth along this edge")
				case kinds["slot"]:
					ok, why := slotEdgeBounded(p, site)
					c.check(ok, key, p.instrPos(site), "supplied slot content, evaluated with its own scope removed: "+why, "supplied slot content is evaluated with a context in which a <slot> of the same name finds this very content again: content that contains such a <slot> recurses until the stack overflows ("+why+")")
				default:
					var ks []string
					for k := range kinds {
						ks = append(ks, k)
					}
					sort.Strings(ks)
					c.ok(key, p.instrPos(site), "re-enters on: "+strings.Join(ks, ", "))
				}
			}
		}
	}
	c.ok("edges", "-", fmt.Sprintf("%d recursive edges with node arguments in %d cycles examined", nEdges, len(sccs)))
}

func (p *Prog) instrPosOf(v ssa.Value) string {
	if in, ok := v.(ssa.Instruction); ok {
		return p.instrPos(in)
	}
	return p.pos(v.Pos())
}

// slotEdgeBounded: the call evaluates supplied slot content. The VueContext it passes must have had
// the scope the content was found in removed on every path to the call:
//   - content found through the component's slot scope (parameter / ctx.SlotScope): a store of nil
//     into the SlotScope field of the context copy dominates the call and no later store undoes it;
//   - content found through the inherited scope (the `__slotScope__` entry of the environment): a
//     `stack.Set("__slotScope__", nil)` dominates the call.
func slotEdgeBounded(p *Prog, site ssa.CallInstruction) (bool, string) {
	fn := site.Parent()
	// the context argument
	var ctxArg ssa.Value
	for _, a := range callArgs(site.Common()) {
		if isNamed(a.Type(), modPath, "VueContext") {
			ctxArg = a
		}
	}
	if ctxArg == nil {
		return false, "the call passes no VueContext"
	}
	// where was the content found?
	w := &srcWalker{p: p, in: map[*ssa.Function]bool{}, seen: map[ssa.Value]bool{}}
	for _, a := range callArgs(site.Common()) {
		if nodeCarrying(a.Type()) {
			w.walk(a, 0)
		}
	}
	inherited, own := false, false
	for _, l := range w.out {
		if l.kind != "slot" {
			continue
		}
		// l.v is the FieldAddr of the SlotContent field: its base comes from GetSlot(receiver)
		fa, ok := l.v.(*ssa.FieldAddr)
		if !ok {
			own = true
			continue
		}
		for _, o := range p.origins(fa.X, OriginOpts{}) {
			cl, ok := o.(*ssa.Call)
			if !ok || !strings.HasSuffix(calleeName(&cl.Call), "(*vuego.SlotScope).GetSlot") {
				own = true
				continue
			}
			fromEnv := false
			for _, ro := range p.origins(cl.Call.Args[0], OriginOpts{}) {
				if _, isLookup := ro.(*ssa.Lookup); isLookup {
					fromEnv = true
				}
				if ex, ok := ro.(*ssa.Extract); ok {
					if _, isLookup := ex.Tuple.(*ssa.Lookup); isLookup {
						fromEnv = true
					}
				}
			}
			if fromEnv {
				inherited = true
			} else {
				own = true
			}
		}
	}
	var notes []string
	if own {
		// ctx argument: a load of the local context cell; the last store to its SlotScope field before the call is nil
		ld, ok := ctxArg.(*ssa.UnOp)
		if !ok || ld.Op != token.MUL {
			return false, "the context passed on is not the function's own context copy"
		}
		cell, ok := ld.X.(*ssa.Alloc)
		if !ok {
			return false, "the context passed on is not the function's own context copy"
		}
		var stores []*ssa.Store
		for _, u := range *cell.Referrers() {
			fa, ok := u.(*ssa.FieldAddr)
			if !ok || !fieldIs(fieldVar(fa), "SlotScope") {
				continue
			}
			for _, uu := range *fa.Referrers() {
				if st, ok := uu.(*ssa.Store); ok && st.Addr == ssa.Value(fa) {
					stores = append(stores, st)
				}
			}
		}
		cleared := false
		for _, st := range stores {
			if isNilConst(st.Val) && dominates(st, site) {
				cleared = true
			}
		}
		if !cleared {
			return false, "no `ctx.SlotScope = nil` dominates the call in " + shortName(fn)
		}
		for _, st := range stores {
			if !isNilConst(st.Val) && canFollow(st, site) {
				return false, "ctx.SlotScope is assigned again before the call"
			}
		}
		notes = append(notes, "ctx.SlotScope = nil dominates the call")
	}
	if inherited {
		hidden := false
		for _, s2 := range callsIn(fn) {
			if calleeName(s2.Common()) != "(*vuego.Stack).Set" || len(s2.Common().Args) < 3 {
				continue
			}
			k, ok := constString(s2.Common().Args[1])
			if !ok || k != "__slotScope__" {
				continue
			}
			val := s2.Common().Args[2]
			if mi, ok := val.(*ssa.MakeInterface); ok {
				val = mi.X
			}
			if isNilConst(val) && dominates(s2, site) {
				hidden = true
			}
		}
		if !hidden {
			return false, "content inherited through `__slotScope__` is evaluated while that entry is still visible: no `stack.Set(\"__slotScope__\", nil)` dominates the call in " + shortName(fn)
		}
		notes = append(notes, "the inherited `__slotScope__` entry is shadowed with nil")
	}
	if !own && !inherited {
		return false, "cannot tell in which scope the content was found"
	}
	return true, strings.Join(notes, "; ")
}

func init() {
	register(&Rule{
		ID: "C07.R8", Props: []string{"C07", "C11"}, Min: 3,
		Doc: "a circular layout chain is reported when a file repeats, not after the maximum number of rounds: every round embeds the previous output as `content` (possibly more than once), so the work of a cycle that is only cut off by the depth limit grows geometrically. The chain loop keeps a set of the files it has rendered: a map created before the loop, looked up with the name of the file about to be loaded in a guard inside the loop, before the render call, whose hit edge returns an error, and updated with that name in every round",
		Run: func(p *Prog, c *Ctx) {
			fn := p.MustFn("(*vuego.template).layout")
			var render, load ssa.CallInstruction
			for _, site := range callsIn(fn) {
				switch calleeName(site.Common()) {
				case "(*vuego.template).renderWithoutLayout":
					render = site
				case "(*vuego.template).Load":
					load = site
				}
			}
			if render == nil || load == nil {
				undecided("layout: no Load / renderWithoutLayout call")
			}
			h := loopHeaderOf(render.Block())
			if h == nil {
				undecided("layout: render call not in a loop")
			}
			loop := loopBlocks(h)
			file := load.Common().Args[len(load.Common().Args)-1]
			sameFile := func(v ssa.Value) bool { return v == file || sameValue(v, file) }
			// candidate sets: maps made outside the loop
			var found *ssa.MakeMap
			why := "no map keyed by the file name is consulted before a link is rendered"
			eachInstr(fn, func(in ssa.Instruction) {
				mm, ok := in.(*ssa.MakeMap)
				if !ok || loop[mm.Block()] || found != nil {
					return
				}
				isSet := func(v ssa.Value) bool {
					for _, o := range p.origins(v, OriginOpts{}) {
						if o == ssa.Value(mm) {
							return true
						}
					}
					return false
				}
				looked, updated := false, false
				eachInstr(fn, func(x ssa.Instruction) {
					switch y := x.(type) {
					case *ssa.Lookup:
						if !isSet(y.X) || !sameFile(y.Index) || !loop[y.Block()] {
							return
						}
						// the looked-up value decides a branch that dominates the render call and returns an error when it is set
						var val ssa.Value = y
						if y.CommaOk {
							val = nil
							for _, u := range *y.Referrers() {
								if ex, ok := u.(*ssa.Extract); ok {
									if val == nil || ex.Index == 0 {
										val = ex
									}
								}
							}
						}
						if val == nil {
							return
						}
						for _, b := range fn.Blocks {
							ifi, isIf := b.Instrs[len(b.Instrs)-1].(*ssa.If)
							if !isIf || !loop[b] || !blocksAfter(b)[render.Block()] {
								continue
							}
							dep := false
							walkCond(ifi.Cond, func(v ssa.Value) {
								if v == val {
									dep = true
								}
							})
							if ph, isPhi := ifi.Cond.(*ssa.Phi); isPhi {
								for _, e := range ph.Edges {
									if e == val {
										dep = true
									}
								}
							}
							if !dep {
								continue
							}
							for k, s := range b.Succs {
								if blockReturnsNonNilError(s) && !(b.Succs[1-k] == s) {
									looked = true
								}
							}
						}
					case *ssa.MapUpdate:
						if isSet(y.Map) && sameFile(y.Key) && loop[y.Block()] && y.Block().Dominates(render.Block()) {
							updated = true
						}
					}
				})
				switch {
				case looked && updated:
					found = mm
				case looked:
					why = "the set of rendered files is consulted but not updated in every round"
				case updated:
					why = "the set of rendered files is updated but no hit leads to an error before the link is rendered"
				}
			})
			c.check(found != nil, "layout: a repeated file ends the chain with an error", p.instrPos(render), "set of rendered files: created before the loop, consulted (hit → error) and updated before every render", "the chain loop does not notice a file that comes up again: a circular chain runs until the depth limit, and since every round embeds the previous output (a layout may use `content` twice) the output of a two-file cycle doubles a hundred times before the limit is reached — "+why)
			c.ok("layout: loop", p.instrPos(load), "Load/render loop found")
			c.ok("layout: file name", p.instrPos(load), "file name passed to Load: "+describeValue(file))
		},
	})
}

