// vuegocheck decides the structural clauses of the vuego properties C01–C20 from /repo's source.
// Nothing under the repository is executed: the verdict comes from the type-checked program,
// its SSA form, dominator/CFG queries and a VTA call graph.
package main

import (
	"encoding/json"
	"flag"
	"fmt"
	"os"
	"path/filepath"
	"runtime/debug"
	"sort"
	"strconv"
	"strings"
	"time"
)

var registry []*Rule

// tierThorough widens the entry sets of cone-based rules to every package of the module.
var tierThorough bool

func register(r *Rule) {
	for _, o := range registry {
		if o.ID == r.ID {
			panic("rule id registered twice: " + r.ID) // (two rules under one id would share known-finding keys and evidence rows)
		}
	}
	registry = append(registry, r)
}

func rulesFor(prop, tier string) []*Rule {
	var out []*Rule
	for _, r := range registry {
		if r.Tier == "thorough" && tier != "thorough" {
			continue
		}
		for _, p := range r.Props {
			if p == prop {
				out = append(out, r)
			}
		}
	}
	sort.Slice(out, func(i, j int) bool { return out[i].ID < out[j].ID })
	return out
}

func allProps() []string {
	var out []string
	for i := 1; i <= 20; i++ {
		out = append(out, fmt.Sprintf("C%02d", i))
	}
	return out
}

func main() {
	var (
		prop     = flag.String("property", "", "property id (C01..C20) or 'all'")
		tier     = flag.String("tier", "quick", "quick|thorough")
		repo     = flag.String("repo", "/repo", "repository working tree to analyse")
		verif    = flag.String("verif", "/verif", "verification directory (known_findings.json, evidence/, out/)")
		replay   = flag.String("replay", "", "replay file: re-evaluate exactly that obligation")
		list     = flag.Bool("list", false, "list rules")
		genRoles = flag.String("gen-roles", "", "file with role names, one per line: print roles_table.go for the tree given by -repo")
		dump     = flag.Bool("dump", false, "print every obligation")
		noEvid   = flag.Bool("no-evidence", false, "do not write evidence/violation files (self-test runs)")
		onlyRule = flag.String("rule", "", "run only this rule id (debugging / self-test)")
		ssaOf    = flag.String("ssa", "", "print the normalised SSA of this function (short name) and exit (debugging)")
	)
	flag.Parse()
	if *ssaOf != "" {
		p := loadProg(*repo)
		fn := p.Fn(*ssaOf)
		if fn == nil {
			fmt.Println("no such function")
			os.Exit(2)
		}
		fn.WriteTo(os.Stdout)
		return
	}
	if *list {
		for _, r := range registry {
			fmt.Printf("%-10s %-20s min=%d %s\n", r.ID, strings.Join(r.Props, ","), r.Min, r.Doc)
		}
		return
	}
	if *genRoles != "" {
		b, err := os.ReadFile(*genRoles)
		if err != nil {
			fmt.Println(err)
			os.Exit(2)
		}
		noInline = true // the table describes the tree as it is; nothing is a helper while it is being written
		p := loadProg(*repo)
		names := strings.Fields(string(b))
		if len(names) == 1 && names[0] == "*" {
			names = nil
			for n, f := range p.byName {
				if f.Parent() == nil {
					names = append(names, n)
				}
			}
		}
		fmt.Print(p.genRoles(names))
		return
	}
	tierThorough = *tier == "thorough"
	start := time.Now()
	seed := 0
	if s := os.Getenv("VERIF_SEED"); s != "" {
		seed, _ = strconv.Atoi(s)
	}
	var replayOb *Obligation
	if *replay != "" {
		b, err := os.ReadFile(*replay)
		if err != nil {
			fmt.Println("UNDECIDED: cannot read replay file:", err)
			os.Exit(2)
		}
		var rf struct {
			Property   string     `json:"property"`
			Tier       string     `json:"tier"`
			Obligation Obligation `json:"obligation"`
		}
		if err := json.Unmarshal(b, &rf); err != nil {
			fmt.Println("UNDECIDED: replay file does not parse:", err)
			os.Exit(2)
		}
		*prop, *tier = rf.Property, rf.Tier
		replayOb = &rf.Obligation
		*onlyRule = rf.Obligation.Rule
		*noEvid = true
	}
	if *prop == "" {
		fmt.Println("usage: vuegocheck -property Cxx|all [-tier quick|thorough] [-repo /repo]")
		os.Exit(2)
	}
	props := []string{*prop}
	if *prop == "all" {
		props = allProps()
	}

	exit := 0
	func() {
		defer func() {
			if r := recover(); r != nil {
				if u, ok := r.(UndecidedError); ok {
					fmt.Println("UNDECIDED:", u.Msg)
				} else {
					fmt.Printf("UNDECIDED: analysis panicked: %v\n%s\n", r, debug.Stack())
				}
				exit = 2
			}
		}()
		p := loadProg(*repo)
		for _, r := range p.Renamed {
			fmt.Println("NOTE: role", r)
		}
		for _, o := range p.Opaque {
			fmt.Printf("NOTE: %s (%s:%d) is opaque to the rules: %s\n", o.fn, o.file, o.from, o.why)
		}
		if len(p.Inlined) > 0 {
			fmt.Printf("NOTE: %d calls to functions that are new since the pinned tree were replaced by the callee's body before the rules ran\n", len(p.Inlined))
		}
		for _, r := range p.NotInlined {
			fmt.Println("NOTE: new function kept as a call:", r)
		}
		known := loadKnown(filepath.Join(*verif, "known_findings.json"))
		openFindings = known
		cache := map[string]*RuleResult{}
		for _, pr := range props {
			rules := rulesFor(pr, *tier)
			if *onlyRule != "" {
				var f []*Rule
				for _, r := range rules {
					if r.ID == *onlyRule {
						f = append(f, r)
					}
				}
				rules = f
			}
			if len(rules) == 0 {
				if *prop == "all" {
					continue
				}
				undecided("no rules registered for %s", pr)
			}
			pstart := time.Now()
			var results []*RuleResult
			for _, r := range rules {
				res := cache[r.ID]
				if res == nil {
					res = runRule(p, r, *tier)
					cache[r.ID] = res
				}
				results = append(results, res)
			}
			code := report(p, pr, *tier, seed, results, known, *verif, *dump, *noEvid, replayOb, time.Since(pstart)+time.Since(start)/time.Duration(len(props)))
			if code > exit {
				exit = code
			}
		}
	}()
	os.Exit(exit)
}

// opaqueList: the functions whose shape the rules cannot look through (opaque.go); none on the unchanged tree.
func opaqueList(p *Prog) []string {
	out := []string{}
	for _, o := range p.Opaque {
		out = append(out, fmt.Sprintf("%s (%s:%d): %s", o.fn, o.file, o.from, o.why))
	}
	return out
}

// openFindings: the recorded, unrepaired findings; a report that is one of them is never withdrawn as
// `opaque` — it stays the known finding it is.
var openFindings []KnownFinding

func isOpenFinding(rule, key string) bool {
	for _, k := range openFindings {
		if k.Status == "open" && k.Rule == rule && k.Key == key {
			return true
		}
	}
	return false
}

func runRule(p *Prog, r *Rule, tier string) (res *RuleResult) {
	c := &Ctx{rule: r, tier: tier}
	defer func() {
		// a rule that cannot resolve its anchors is undecided on its own; the other rules still run
		if rec := recover(); rec != nil {
			msg := ""
			if u, ok := rec.(UndecidedError); ok {
				msg = u.Msg
			} else {
				msg = fmt.Sprintf("analysis panicked: %v\n%s", rec, debug.Stack())
			}
			res = &RuleResult{Rule: r.ID, Doc: r.Doc, Min: r.Min, Undecided: msg}
		}
	}()
	r.Run(p, c)
	sortObs(c.obs)
	// keys must be unique per rule so that known findings and replays address one construct
	seen := map[string]int{}
	for i := range c.obs {
		k := c.obs[i].Key
		seen[k]++
		if seen[k] > 1 {
			c.obs[i].Key = fmt.Sprintf("%s#%d", k, seen[k])
		}
	}
	// a report inside a function whose shape the normaliser cannot look through is withdrawn: the rule is
	// undecided for that construct (opaque.go)
	withdrawn := ""
	if len(p.Opaque) > 0 && !r.Local {
		kept := c.obs[:0]
		for _, o := range c.obs {
			if !o.OK && !isOpenFinding(r.ID, o.Key) {
				where, opaque := p.opaqueAt(o.Pos)
				if !opaque && !strings.Contains(o.Pos, ":") {
					// a finding about the module as a whole ("no function does X any more") while some function
					// cannot be looked into: X may be happening there
					where, opaque = p.Opaque[0].fn+" ("+p.Opaque[0].file+"): "+p.Opaque[0].why, true
				}
				if opaque {
					if withdrawn == "" {
						withdrawn = fmt.Sprintf("%s at %s is not decided: the construct lies in %s — a shape this analysis cannot look through", o.Key, o.Pos, where)
					}
					continue
				}
			}
			kept = append(kept, o)
		}
		c.obs = kept
	}
	res = &RuleResult{Rule: r.ID, Doc: r.Doc, Instances: len(c.obs), Min: r.Min, Notes: c.notes, Obs: c.obs, Undecided: withdrawn}
	for _, o := range c.obs {
		if !o.OK {
			res.Failed++
		}
	}
	if withdrawn != "" {
		return res
	}
	if res.Instances < r.Min && res.Failed == 0 {
		undecided("rule %s examined %d instances, fewer than the %d confirmed by hand: its anchors no longer match the code (a rule that matches nothing would pass vacuously)", r.ID, res.Instances, r.Min)
	}
	return res
}

func report(p *Prog, prop, tier string, seed int, results []*RuleResult, known []KnownFinding, verif string, dump, noEvid bool, replayOb *Obligation, wall time.Duration) int {
	var all []Obligation
	undecidedN := 0
	for _, r := range results {
		all = append(all, r.Obs...)
		if r.Undecided != "" {
			undecidedN++
			fmt.Printf("UNDECIDED: property=%s rule %s: %s\n", prop, r.Rule, r.Undecided)
		}
	}
	isKnown := func(o Obligation) *KnownFinding {
		for i := range known {
			k := &known[i]
			if k.Status == "open" && k.Property == prop && k.Rule == o.Rule && k.Key == o.Key {
				return k
			}
		}
		return nil
	}
	if replayOb != nil {
		for _, o := range all {
			if o.Rule == replayOb.Rule && o.Key == replayOb.Key {
				if o.OK {
					fmt.Printf("REPLAY: %s %s now holds at %s: %s\n", o.Rule, o.Key, o.Pos, o.Msg)
					return 0
				}
				fmt.Printf("REPLAY: %s %s still fails at %s: %s\n", o.Rule, o.Key, o.Pos, o.Msg)
				for _, s := range o.Path {
					fmt.Println("   ", s)
				}
				return 1
			}
		}
		fmt.Printf("REPLAY: construct %s %s no longer exists in the tree\n", replayOb.Rule, replayOb.Key)
		return 0
	}
	violations, knownN, discharged := 0, 0, 0
	outDir := filepath.Join(verif, "out", "violations")
	if !noEvid {
		// stale replay files of this property are removed so that the directory reflects this run
		if ents, err := os.ReadDir(outDir); err == nil {
			for _, e := range ents {
				if strings.HasPrefix(e.Name(), prop+"-") {
					os.Remove(filepath.Join(outDir, e.Name()))
				}
			}
		}
	}
	var samples []any
	var failedSamples []any
	for i := range all {
		o := &all[i]
		switch {
		case o.OK:
			o.Status = "discharged"
			discharged++
		case isKnown(*o) != nil:
			o.Status = "known-finding"
			knownN++
			fmt.Printf("KNOWN-FINDING: property=%s %s %s at %s — %s\n", prop, o.Rule, o.Key, o.Pos, isKnown(*o).What)
		default:
			o.Status = "violation"
			violations++
			path := filepath.Join(outDir, fmt.Sprintf("%s-%s-%s.json", prop, o.Rule, safeName(o.Key)))
			if !noEvid {
				writeJSON(path, map[string]any{"property": prop, "tier": tier, "obligation": o, "rule_doc": ruleDoc(o.Rule),
					"replay": "bin/vuegocheck -replay " + path})
			}
			fmt.Printf("  %s %s at %s: %s\n", o.Rule, o.Key, o.Pos, o.Msg)
			for _, s := range o.Path {
				fmt.Println("      ", s)
			}
			fmt.Printf("VIOLATION property=%s replay=%s\n", prop, path)
		}
		if dump {
			fmt.Printf("  [%s] %s %s %s: %s\n", o.Status, o.Rule, o.Key, o.Pos, o.Msg)
		}
		entry := map[string]any{"rule": o.Rule, "construct": o.Key, "pos": o.Pos, "status": o.Status, "msg": o.Msg}
		if o.OK {
			if len(samples) < 12 || i%7 == 0 && len(samples) < 40 {
				samples = append(samples, entry)
			}
		} else {
			failedSamples = append(failedSamples, entry)
		}
	}
	samples = append(failedSamples, samples...)
	var ruleSumm []any
	var expl []string
	for _, r := range results {
		ruleSumm = append(ruleSumm, map[string]any{"rule": r.Rule, "instances": r.Instances, "min_instances": r.Min, "failed": r.Failed, "doc": r.Doc, "notes": r.Notes})
		expl = append(expl, r.Rule+": "+r.Doc)
	}
	fmt.Printf("%s tier=%s rules=%d obligations=%d discharged=%d known-findings=%d violations=%d functions=%d\n",
		prop, tier, len(results), len(all), discharged, knownN, violations, len(p.Funcs))
	if !noEvid {
		ev := evidence{PropertyID: prop, Tier: tier, Seed: seed, Level: "other", WallS: wall.Seconds(), Violations: violations,
			Coverage: map[string]any{
				"explanation":         "Static analysis of /repo's working tree (go/packages type-checked syntax, go/ssa, dominators/CFG, VTA call graph); no code of the repository is executed. Decides structural necessary conditions of the property, not its value-level clauses. Rules applied — " + strings.Join(expl, " | "),
				"obligations":         len(all),
				"discharged":          discharged,
				"known_findings":      knownN,
				"violations":          violations,
				"evaluations":         len(all),
				"distinct_nontrivial": len(all),
				"rule":                "one obligation per (rule, construct) pair found in the resolved program: call site, guard, loop, table row or path; all are distinct constructs (keys are unique per rule) and none is trivial: each is a place where the rule could fail",
				"rules":               ruleSumm,
				"functions_analysed":  len(p.Funcs),
				"packages":            len(p.Pkgs),
				"callgraph_nodes":     len(p.CG.Nodes),
				"opaque_functions":    opaqueList(p),
				"samples":             samples,
				"checker_cmd":         fmt.Sprintf("bin/vuegocheck -property %s -tier %s -repo %s", prop, tier, p.Repo),
				"trusted_base":        []string{"go/types and go/ssa (x/tools v0.50.0) build a faithful IR of the source", "VTA call graph is sound for the reflection-free part of the module (reflect.Value.Call and user-supplied FuncMap/NodeProcessor/fs.FS implementations are opaque)", "summaries of standard-library functions used by the rules (html.EscapeString escapes & < > \" '; sort.* sorts; sync.* locks)", "the hand-confirmed role tables and minimum instance counts in the checker"},
				"exhaustive":          true,
			},
			Assumptions: []string{"dependencies (expr-lang, goldmark, yaml, x/net/html) are trusted and not analysed", "value-level clauses of the property (listed as 'not decided' in DESIGN.md) are outside this check"},
		}
		writeJSON(filepath.Join(verif, "evidence", prop+".json"), ev)
	}
	if violations > 0 {
		return 1
	}
	if undecidedN > 0 {
		return 2
	}
	return 0
}

func ruleDoc(id string) string {
	for _, r := range registry {
		if r.ID == id {
			return r.Doc
		}
	}
	return ""
}
