package main

import (
	"fmt"
	"go/token"
	"go/types"
	"reflect"
	"slices"
	"sort"
	"unsafe"

	"golang.org/x/tools/go/ssa"
)

// Helper normalisation.
//
// The rules are written against *roles*: the functions of the pinned tree (roles_table.go). A change
// that moves part of a role's body into a new function ("extract function") keeps the behaviour and
// must keep every verdict. Instead of teaching each rule to look through calls, the loaded program is
// normalised before any rule runs: every static call to a *helper* — a module function that is not a
// role, i.e. one that did not exist in the pinned tree — is replaced by the helper's body, in SSA form
// (blocks cloned, parameters replaced by the arguments, returns turned into jumps to the continuation
// with φ-nodes for the results, single unconditional defers turned into calls at the helper's exits).
// The same is done for a few generic standard-library loops (maps.Copy, slices.IndexFunc, …) whose
// hand-written form the rules already understand. Helpers that are no longer referenced afterwards
// are dropped from the function list, so no rule sees the extracted fragment out of its context.
//
// go/ssa does not offer an API to build instructions outside its builder; the clone is made with
// reflection (struct copy) and the few unexported fields that matter (block, referrers, type,
// dominator info) are written through unsafe pointers. Everything is re-validated by sanityCheck;
// any inconsistency makes the run UNDECIDED, never a verdict.
//
// Not inlined (the call stays a call, as before): recursive helpers, go/defer calls, calls through
// values, helpers that recover, helpers whose defers are conditional or in loops, helpers that never
// return, helpers with closures that are called from more than one site.

var stdInline = map[string]bool{
	"maps.Copy": true,
	// slices.Contains / slices.Index over a constant table are understood as membership tests where they
	// stand (memberOf in flow.go); slices.IndexFunc / ContainsFunc take a predicate and are inlined
	"slices.IndexFunc": true, "slices.ContainsFunc": true,
}

func setUnexported(obj any, name string, val any) {
	rv := reflect.ValueOf(obj).Elem()
	f := rv.FieldByName(name)
	if !f.IsValid() {
		undecided("inliner: %T has no field %s (go/ssa layout changed)", obj, name)
	}
	dst := reflect.NewAt(f.Type(), unsafe.Pointer(f.UnsafeAddr())).Elem()
	if val == nil {
		dst.Set(reflect.Zero(f.Type()))
		return
	}
	dst.Set(reflect.ValueOf(val))
}

func setBlock(in ssa.Instruction, b *ssa.BasicBlock) { setUnexported(in, "block", b) }

func setDom(b *ssa.BasicBlock, idom *ssa.BasicBlock, children []*ssa.BasicBlock, pre, post int32) {
	rv := reflect.ValueOf(b).Elem().FieldByName("dom")
	set := func(name string, val reflect.Value) {
		f := rv.FieldByName(name)
		reflect.NewAt(f.Type(), unsafe.Pointer(f.UnsafeAddr())).Elem().Set(val)
	}
	if idom == nil {
		set("idom", reflect.Zero(reflect.TypeOf(b)))
	} else {
		set("idom", reflect.ValueOf(idom))
	}
	set("children", reflect.ValueOf(children))
	set("pre", reflect.ValueOf(pre))
	set("post", reflect.ValueOf(post))
}

// cloneInstr makes a shallow copy of the instruction with its own operand slices and no referrers.
func cloneInstr(in ssa.Instruction) ssa.Instruction {
	ov := reflect.ValueOf(in)
	nv := reflect.New(ov.Type().Elem())
	nv.Elem().Set(ov.Elem())
	ni := nv.Interface().(ssa.Instruction)
	switch x := ni.(type) {
	case *ssa.Phi:
		x.Edges = slices.Clone(x.Edges)
	case *ssa.Call:
		x.Call.Args = slices.Clone(x.Call.Args)
	case *ssa.Go:
		x.Call.Args = slices.Clone(x.Call.Args)
	case *ssa.Defer:
		x.Call.Args = slices.Clone(x.Call.Args)
	case *ssa.MakeClosure:
		x.Bindings = slices.Clone(x.Bindings)
	case *ssa.Return:
		x.Results = slices.Clone(x.Results)
	case *ssa.Select:
		st := make([]*ssa.SelectState, len(x.States))
		for i, s := range x.States {
			c := *s
			st[i] = &c
		}
		x.States = st
	}
	if _, ok := ni.(ssa.Value); ok {
		if f := nv.Elem().FieldByName("referrers"); f.IsValid() {
			setUnexported(ni, "referrers", nil)
		}
	}
	return ni
}

func addReferrers(in ssa.Instruction) {
	for _, op := range in.Operands(nil) {
		if op == nil || *op == nil {
			continue
		}
		if r := (*op).Referrers(); r != nil {
			*r = append(*r, in)
		}
	}
}

func dropReferrers(in ssa.Instruction) {
	for _, op := range in.Operands(nil) {
		if op == nil || *op == nil {
			continue
		}
		if r := (*op).Referrers(); r != nil {
			out := (*r)[:0]
			for _, u := range *r {
				if u != in {
					out = append(out, u)
				}
			}
			*r = out
		}
	}
}

// replaceUses rewrites every use of old into new.
func replaceUses(old, new ssa.Value) {
	r := old.Referrers()
	if r == nil {
		return
	}
	seen := map[ssa.Instruction]bool{}
	for _, u := range *r {
		if seen[u] {
			continue
		}
		seen[u] = true
		for _, op := range u.Operands(nil) {
			if op != nil && *op == old {
				*op = new
				if nr := new.Referrers(); nr != nil {
					*nr = append(*nr, u)
				}
			}
		}
	}
	*r = nil
}

func removeInstr(in ssa.Instruction) {
	b := in.Block()
	for i, x := range b.Instrs {
		if x == in {
			b.Instrs = append(b.Instrs[:i:i], b.Instrs[i+1:]...)
			return
		}
	}
}

type inliner struct {
	p           *Prog
	helper      map[*ssa.Function]bool // inlinable callees
	why         map[*ssa.Function]string
	sites       map[*ssa.Function]int // static call sites per helper (before inlining)
	Inlined     []string
	touched     map[*ssa.Function]bool
	reparent    map[*ssa.Function]*ssa.Function
	marked      map[*ssa.BasicBlock]bool // blocks created by the inliner (or fused with one)
	clonedAlloc map[*ssa.Alloc]bool
}

// isHelperFunc: a source function of the module that is not one of the pinned tree's roles.
func (p *Prog) isHelperFunc(fn *ssa.Function) bool {
	if fn == nil || fn.Parent() != nil || len(fn.Blocks) == 0 || !inModule(fn) {
		return false
	}
	if fn.Synthetic != "" && fn.Origin() == nil {
		return false
	}
	name := shortName(fn)
	if o := fn.Origin(); o != nil {
		name = shortName(o)
	}
	if _, isRole := roleTable[name]; isRole {
		return false
	}
	if fn.Name() == "init" || fn.Name() == "main" {
		return false
	}
	return true
}

func stdInlinable(fn *ssa.Function) bool {
	o := fn.Origin()
	if o == nil || o.Pkg == nil || len(fn.Blocks) == 0 {
		return false
	}
	return stdInline[o.Pkg.Pkg.Path()+"."+o.Name()]
}

// noInline switches helper normalisation off (role table generation).
var noInline bool

func (p *Prog) inlineHelpers() {
	if noInline {
		return
	}
	il := &inliner{p: p, helper: map[*ssa.Function]bool{}, why: map[*ssa.Function]string{}, sites: map[*ssa.Function]int{},
		touched: map[*ssa.Function]bool{}, reparent: map[*ssa.Function]*ssa.Function{}, marked: map[*ssa.BasicBlock]bool{}, clonedAlloc: map[*ssa.Alloc]bool{}}
	// module functions (and closures) in which calls are replaced
	var hosts []*ssa.Function
	hosts = append(hosts, p.Funcs...)
	hosts = append(hosts, p.Inits...)
	// candidate callees
	cands := map[*ssa.Function]bool{}
	for _, f := range hosts {
		eachInstr(f, func(in ssa.Instruction) {
			c, ok := in.(*ssa.Call)
			if !ok {
				return
			}
			callee := c.Call.StaticCallee()
			if callee == nil {
				return
			}
			if p.isHelperFunc(callee) || stdInlinable(callee) {
				cands[callee] = true
				il.sites[callee]++
			}
		})
	}
	// transitive candidates inside std helpers (slices.Contains → slices.Index)
	for changed := true; changed; {
		changed = false
		for h := range cands {
			eachInstr(h, func(in ssa.Instruction) {
				if c, ok := in.(*ssa.Call); ok {
					if callee := c.Call.StaticCallee(); callee != nil && !cands[callee] && stdInlinable(callee) && stdInlinable(h) {
						cands[callee] = true
						changed = true
					}
					if callee := c.Call.StaticCallee(); callee != nil && stdInlinable(h) {
						il.sites[callee]++
					}
				}
			})
		}
	}
	for h := range cands {
		if why := il.refuse(h, cands); why != "" {
			il.why[h] = why
			continue
		}
		il.helper[h] = true
	}
	// recursion among helpers: remove every helper on a cycle
	for h := range il.helper {
		if il.reaches(h, h, map[*ssa.Function]bool{}) {
			il.why[h] = "recursive"
		}
	}
	for h, w := range il.why {
		if w == "recursive" {
			delete(il.helper, h)
		}
	}
	if len(il.helper) == 0 {
		p.noteNotInlined(il)
		return
	}
	// flatten helpers first (callee before caller), then the hosts
	order := sortedFuncs(il.helper)
	done := map[*ssa.Function]bool{}
	var flatten func(h *ssa.Function)
	flatten = func(h *ssa.Function) {
		if done[h] {
			return
		}
		done[h] = true
		eachInstr(h, func(in ssa.Instruction) {
			if c, ok := in.(*ssa.Call); ok {
				if callee := c.Call.StaticCallee(); callee != nil && il.helper[callee] {
					flatten(callee)
				}
			}
		})
		il.inlineInto(h)
	}
	for _, h := range order {
		flatten(h)
	}
	for _, f := range hosts {
		if !il.helper[f] {
			il.inlineInto(f)
		}
	}
	// drop helpers that are no longer referenced
	refd := map[*ssa.Function]bool{}
	var scan func(f *ssa.Function)
	scanned := map[*ssa.Function]bool{}
	scan = func(f *ssa.Function) {
		if scanned[f] {
			return
		}
		scanned[f] = true
		eachInstr(f, func(in ssa.Instruction) {
			for _, op := range in.Operands(nil) {
				if op == nil || *op == nil {
					continue
				}
				if g, ok := (*op).(*ssa.Function); ok {
					refd[g] = true
				}
			}
		})
	}
	live := map[*ssa.Function]bool{}
	for _, f := range hosts {
		if f.Parent() == nil && !il.helper[f] {
			live[f] = true
		}
	}
	// closures follow their (possibly new) root
	for _, f := range hosts {
		if f.Parent() != nil && live[rootFunc(f)] {
			live[f] = true
		}
	}
	for changed := true; changed; {
		changed = false
		for f := range live {
			scan(f)
		}
		for g := range refd {
			if !live[g] && il.helper[g] {
				live[g] = true
				changed = true
				for _, f := range hosts {
					if f.Parent() != nil && rootFunc(f) == g {
						live[f] = true
					}
				}
			}
		}
	}
	var kept []*ssa.Function
	for _, f := range p.Funcs {
		root := rootFunc(f)
		if il.helper[root] && !live[root] && !(token.IsExported(root.Name()) && exportedRecv(root)) {
			delete(p.byName, shortName(f))
			if p.Dropped == nil {
				p.Dropped = map[*ssa.Function]bool{}
			}
			p.Dropped[root] = true
			continue
		}
		kept = append(kept, f)
	}
	p.Funcs = kept
	sort.Strings(il.Inlined)
	p.Inlined = il.Inlined
	p.noteNotInlined(il)
}

func exportedRecv(fn *ssa.Function) bool {
	r := fn.Signature.Recv()
	if r == nil {
		return true
	}
	t := r.Type()
	if pt, ok := t.(*types.Pointer); ok {
		t = pt.Elem()
	}
	if n, ok := t.(*types.Named); ok {
		return n.Obj().Exported()
	}
	return false
}

func (p *Prog) noteNotInlined(il *inliner) {
	var names []string
	for h, w := range il.why {
		if p.isHelperFunc(h) {
			names = append(names, fmt.Sprintf("%s (%s)", shortName(h), w))
		}
	}
	sort.Strings(names)
	p.NotInlined = names
}

func (il *inliner) reaches(from, target *ssa.Function, seen map[*ssa.Function]bool) bool {
	found := false
	walkFuncTree(from, func(f *ssa.Function) {
		eachInstr(f, func(in ssa.Instruction) {
			if found {
				return
			}
			c := callOf(in)
			if c == nil {
				return
			}
			callee := c.StaticCallee()
			if callee == nil || !il.helper[callee] {
				return
			}
			if callee == target {
				found = true
				return
			}
			if !seen[callee] {
				seen[callee] = true
				if il.reaches(callee, target, seen) {
					found = true
				}
			}
		})
	})
	return found
}

// refuse explains why a candidate cannot be inlined ("" when it can).
func (il *inliner) refuse(h *ssa.Function, cands map[*ssa.Function]bool) string {
	if len(h.FreeVars) > 0 {
		return "has free variables"
	}
	if len(h.AnonFuncs) > 0 && il.sites[h] > 1 {
		return "creates closures and is called from several sites"
	}
	nret := 0
	var defers []*ssa.Defer
	var rundefers []*ssa.RunDefers
	bad := ""
	walkFuncTree(h, func(f *ssa.Function) {
		eachInstr(f, func(in ssa.Instruction) {
			if c := callOf(in); c != nil {
				if b, ok := c.Value.(*ssa.Builtin); ok && b.Name() == "recover" {
					bad = "recovers from panics"
				}
			}
		})
	})
	if bad != "" {
		return bad
	}
	eachInstr(h, func(in ssa.Instruction) {
		if in.Block() == h.Recover {
			return
		}
		switch x := in.(type) {
		case *ssa.Return:
			nret++
		case *ssa.Defer:
			defers = append(defers, x)
		case *ssa.RunDefers:
			rundefers = append(rundefers, x)
		}
	})
	if nret == 0 {
		return "never returns"
	}
	for _, d := range defers {
		if blocksAfter(d.Block())[d.Block()] {
			return "defers inside a loop"
		}
		for _, rd := range rundefers {
			if !dominates(d, rd) && canFollow(d, rd) {
				return "a defer that runs on some paths to an exit only"
			}
		}
	}
	return ""
}

// inlineInto replaces, in f and until none is left, every static call to an inlinable helper.
func (il *inliner) inlineInto(f *ssa.Function) {
	for guard := 0; guard < 2000; guard++ {
		var site *ssa.Call
		for _, b := range f.Blocks {
			for _, in := range b.Instrs {
				if c, ok := in.(*ssa.Call); ok {
					if callee := c.Call.StaticCallee(); callee != nil && il.helper[callee] && callee != f {
						site = c
						break
					}
				}
			}
			if site != nil {
				break
			}
		}
		if site == nil {
			if il.markBoolLocals(f) {
				il.touched[f] = true
			}
			if il.touched[f] {
				il.simplify(f)
			}
			return
		}
		il.inlineCall(f, site, site.Call.StaticCallee())
		il.touched[f] = true
	}
	undecided("inliner: more than 2000 call sites replaced in %s", f)
}

func (il *inliner) inlineCall(f *ssa.Function, call *ssa.Call, h *ssa.Function) {
	il.Inlined = append(il.Inlined, fmt.Sprintf("%s into %s", shortName(h), shortName(f)))
	args := call.Call.Args
	if len(args) != len(h.Params) {
		undecided("inliner: %s called with %d arguments for %d parameters", h, len(args), len(h.Params))
	}
	vmap := map[ssa.Value]ssa.Value{}
	for i, prm := range h.Params {
		vmap[prm] = args[i]
	}
	bmap := map[*ssa.BasicBlock]*ssa.BasicBlock{}
	var newBlocks []*ssa.BasicBlock
	// the recover block is only entered after a recovered panic; helpers that recover are not inlined
	var hblocks []*ssa.BasicBlock
	for _, hb := range h.Blocks {
		if hb == h.Recover && len(hb.Preds) == 0 {
			continue
		}
		hblocks = append(hblocks, hb)
	}
	for _, hb := range hblocks {
		nb := &ssa.BasicBlock{Comment: "inl:" + h.Name() + ":" + hb.Comment}
		setUnexported(nb, "parent", f)
		bmap[hb] = nb
		il.marked[nb] = true
		newBlocks = append(newBlocks, nb)
	}
	// defers of the helper, ordered by dominance
	var defers []*ssa.Defer
	eachInstr(h, func(in ssa.Instruction) {
		if d, ok := in.(*ssa.Defer); ok {
			defers = append(defers, d)
		}
	})
	// pass 1: clone
	for _, hb := range hblocks {
		nb := bmap[hb]
		for _, in := range hb.Instrs {
			if _, ok := in.(*ssa.Defer); ok {
				continue
			}
			if _, ok := in.(*ssa.RunDefers); ok {
				// the defers that ran before this exit: those that dominate it (an exit that a defer
				// statement does not dominate is not reachable from it — checked in refuse); they lie on
				// one dominance chain, which is their execution order
				var ran []*ssa.Defer
				for _, d := range defers {
					if dominates(d, in) {
						ran = append(ran, d)
					}
				}
				sort.SliceStable(ran, func(i, j int) bool { return dominates(ran[i], ran[j]) })
				for i := len(ran) - 1; i >= 0; i-- {
					d := ran[i]
					cc := d.Call
					cc.Args = slices.Clone(cc.Args)
					nc := &ssa.Call{Call: cc}
					res := cc.Signature().Results()
					var t types.Type = res
					if res.Len() == 1 {
						t = res.At(0).Type()
					}
					setUnexported(nc, "typ", t)
					setUnexported(nc, "pos", d.Pos())
					setBlock(nc, nb)
					nb.Instrs = append(nb.Instrs, nc)
				}
				continue
			}
			ni := cloneInstr(in)
			setBlock(ni, nb)
			if v, ok := in.(ssa.Value); ok {
				vmap[v] = ni.(ssa.Value)
			}
			if a, ok := ni.(*ssa.Alloc); ok {
				il.clonedAlloc[a] = true
			}
			nb.Instrs = append(nb.Instrs, ni)
		}
		for _, s := range hb.Succs {
			nb.Succs = append(nb.Succs, bmap[s])
		}
		for _, pr := range hb.Preds {
			nb.Preds = append(nb.Preds, bmap[pr])
		}
	}
	// split the host block
	b := call.Block()
	idx := instrIndex(call)
	cont := &ssa.BasicBlock{Comment: "inl:" + h.Name() + ":cont"}
	setUnexported(cont, "parent", f)
	il.marked[cont] = true
	cont.Instrs = append(cont.Instrs, b.Instrs[idx+1:]...)
	for _, in := range cont.Instrs {
		setBlock(in, cont)
	}
	cont.Succs = b.Succs
	for _, s := range cont.Succs {
		for i, pr := range s.Preds {
			if pr == b {
				s.Preds[i] = cont
			}
		}
	}
	b.Instrs = b.Instrs[:idx:idx]
	entry := bmap[h.Blocks[0]]
	jmp := &ssa.Jump{}
	setBlock(jmp, b)
	b.Instrs = append(b.Instrs, jmp)
	b.Succs = []*ssa.BasicBlock{entry}
	entry.Preds = append(entry.Preds, b)
	// pass 2: operands
	var rets []*ssa.Return
	for _, nb := range newBlocks {
		for _, ni := range nb.Instrs {
			for _, op := range ni.Operands(nil) {
				if op == nil || *op == nil {
					continue
				}
				if nv, ok := vmap[*op]; ok {
					*op = nv
				}
			}
			addReferrers(ni)
			if r, ok := ni.(*ssa.Return); ok {
				rets = append(rets, r)
			}
		}
	}
	// returns → jumps to the continuation, results → φ
	nres := h.Signature.Results().Len()
	results := make([]ssa.Value, nres)
	for _, r := range rets {
		rb := r.Block()
		cont.Preds = append(cont.Preds, rb)
	}
	var phis []ssa.Instruction
	for j := 0; j < nres; j++ {
		if len(rets) == 1 {
			results[j] = rets[0].Results[j]
			continue
		}
		phi := &ssa.Phi{Comment: "result of " + h.Name()}
		for _, r := range rets {
			phi.Edges = append(phi.Edges, r.Results[j])
		}
		setUnexported(phi, "typ", h.Signature.Results().At(j).Type())
		setUnexported(phi, "pos", call.Pos())
		setBlock(phi, cont)
		addReferrers(phi)
		results[j] = phi
		phis = append(phis, phi)
	}
	for _, r := range rets {
		rb := r.Block()
		dropReferrers(r)
		j := &ssa.Jump{}
		setBlock(j, rb)
		rb.Instrs[len(rb.Instrs)-1] = j
		rb.Succs = []*ssa.BasicBlock{cont}
	}
	cont.Instrs = append(phis, cont.Instrs...)
	// uses of the call
	switch {
	case nres == 1:
		replaceUses(call, results[0])
	case nres > 1:
		var exts []*ssa.Extract
		for _, u := range *call.Referrers() {
			if e, ok := u.(*ssa.Extract); ok && e.Tuple == call {
				exts = append(exts, e)
			}
		}
		for _, e := range exts {
			replaceUses(e, results[e.Index])
			removeInstr(e)
		}
	}
	dropReferrers(call)
	// blocks, locals, closures
	pos := slices.Index(f.Blocks, b)
	var nbs []*ssa.BasicBlock
	nbs = append(nbs, f.Blocks[:pos+1]...)
	nbs = append(nbs, newBlocks...)
	nbs = append(nbs, cont)
	nbs = append(nbs, f.Blocks[pos+1:]...)
	f.Blocks = nbs
	for i, x := range f.Blocks {
		x.Index = i
	}
	for _, l := range h.Locals {
		if nl, ok := vmap[l].(*ssa.Alloc); ok {
			f.Locals = append(f.Locals, nl)
		}
	}
	if len(h.AnonFuncs) > 0 {
		root := f
		for _, a := range h.AnonFuncs {
			setUnexported(a, "parent", root)
			root.AnonFuncs = append(root.AnonFuncs, a)
			il.reparent[a] = root
		}
	}
}

// finish recomputes the dominator tree of a function whose blocks changed and validates the result.
func (il *inliner) finish(f *ssa.Function) {
	// drop blocks that became unreachable (none expected) — keep indices dense
	reach := map[*ssa.BasicBlock]bool{}
	var dfs func(b *ssa.BasicBlock)
	var post []*ssa.BasicBlock
	dfs = func(b *ssa.BasicBlock) {
		if reach[b] {
			return
		}
		reach[b] = true
		for _, s := range b.Succs {
			dfs(s)
		}
		post = append(post, b)
	}
	dfs(f.Blocks[0])
	if f.Recover != nil {
		dfs(f.Recover)
	}
	for _, b := range f.Blocks {
		if !reach[b] {
			undecided("inliner: block %d of %s became unreachable", b.Index, f)
		}
	}
	// Cooper–Harvey–Kennedy
	rpo := map[*ssa.BasicBlock]int{}
	order := make([]*ssa.BasicBlock, len(post))
	for i := range post {
		order[len(post)-1-i] = post[i]
	}
	for i, b := range order {
		rpo[b] = i
	}
	idom := map[*ssa.BasicBlock]*ssa.BasicBlock{}
	roots := map[*ssa.BasicBlock]bool{f.Blocks[0]: true}
	if f.Recover != nil {
		roots[f.Recover] = true
	}
	for r := range roots {
		idom[r] = r
	}
	intersect := func(a, b *ssa.BasicBlock) *ssa.BasicBlock {
		for a != b {
			for rpo[a] > rpo[b] {
				if idom[a] == a {
					return nil
				}
				a = idom[a]
			}
			for rpo[b] > rpo[a] {
				if idom[b] == b {
					return nil
				}
				b = idom[b]
			}
		}
		return a
	}
	for changed := true; changed; {
		changed = false
		for _, b := range order {
			if roots[b] {
				continue
			}
			var nd *ssa.BasicBlock
			for _, pr := range b.Preds {
				if idom[pr] == nil {
					continue
				}
				if nd == nil {
					nd = pr
				} else if x := intersect(pr, nd); x != nil {
					nd = x
				}
			}
			if nd != nil && idom[b] != nd {
				idom[b] = nd
				changed = true
			}
		}
	}
	children := map[*ssa.BasicBlock][]*ssa.BasicBlock{}
	for _, b := range f.Blocks {
		if roots[b] {
			continue
		}
		children[idom[b]] = append(children[idom[b]], b)
	}
	var pre, pst int32
	var number func(b *ssa.BasicBlock)
	info := map[*ssa.BasicBlock][2]int32{}
	number = func(b *ssa.BasicBlock) {
		p0 := pre
		pre++
		for _, c := range children[b] {
			number(c)
		}
		info[b] = [2]int32{p0, pst}
		pst++
	}
	number(f.Blocks[0])
	if f.Recover != nil {
		number(f.Recover)
	}
	for _, b := range f.Blocks {
		var id *ssa.BasicBlock
		if !roots[b] {
			id = idom[b]
		}
		setDom(b, id, children[b], info[b][0], info[b][1])
	}
	num := 0
	for _, b := range f.Blocks {
		for _, in := range b.Instrs {
			if v, ok := in.(ssa.Value); ok {
				if reflect.ValueOf(v).Elem().FieldByName("num").IsValid() {
					setUnexported(v, "num", num)
					num++
				}
			}
		}
	}
	sanityCheck(f)
}

// sanityCheck validates the structural invariants the rules rely on.
func sanityCheck(f *ssa.Function) {
	fail := func(format string, a ...any) {
		undecided("inliner: inconsistent SSA for %s: %s", f, fmt.Sprintf(format, a...))
	}
	inFunc := map[ssa.Instruction]bool{}
	for i, b := range f.Blocks {
		if b.Index != i {
			fail("block index %d at %d", b.Index, i)
		}
		if b.Parent() != f {
			fail("block %d has parent %v", i, b.Parent())
		}
		if len(b.Instrs) == 0 {
			fail("empty block %d", i)
		}
		for j, in := range b.Instrs {
			if in.Block() != b {
				fail("instruction %v of block %d claims block %v", in, i, in.Block())
			}
			inFunc[in] = true
			_, isPhi := in.(*ssa.Phi)
			if isPhi && j > 0 {
				if _, prevPhi := b.Instrs[j-1].(*ssa.Phi); !prevPhi {
					fail("phi after non-phi in block %d", i)
				}
			}
			if phi, ok := in.(*ssa.Phi); ok && len(phi.Edges) != len(b.Preds) {
				fail("phi with %d edges in block %d with %d preds", len(phi.Edges), i, len(b.Preds))
			}
			last := j == len(b.Instrs)-1
			switch in.(type) {
			case *ssa.If, *ssa.Jump, *ssa.Return, *ssa.Panic:
				if !last {
					fail("control transfer in the middle of block %d", i)
				}
			default:
				if last {
					fail("block %d does not end in a control transfer", i)
				}
			}
		}
		switch b.Instrs[len(b.Instrs)-1].(type) {
		case *ssa.If:
			if len(b.Succs) != 2 {
				fail("if with %d succs", len(b.Succs))
			}
		case *ssa.Jump:
			if len(b.Succs) != 1 {
				fail("jump with %d succs", len(b.Succs))
			}
		default:
			if len(b.Succs) != 0 {
				fail("return/panic with succs")
			}
		}
		for _, s := range b.Succs {
			if !slices.Contains(s.Preds, b) {
				fail("succ %d of %d lacks the pred", s.Index, i)
			}
		}
		for _, pr := range b.Preds {
			if !slices.Contains(pr.Succs, b) {
				fail("pred %d of %d lacks the succ", pr.Index, i)
			}
		}
	}
	for _, b := range f.Blocks {
		for _, in := range b.Instrs {
			for _, op := range in.Operands(nil) {
				if op == nil || *op == nil {
					continue
				}
				switch v := (*op).(type) {
				case *ssa.Parameter:
					if v.Parent() != f {
						fail("%v uses parameter %s of %s", in, v.Name(), v.Parent())
					}
				case ssa.Instruction:
					if !inFunc[v] {
						fail("%v uses %v which is not in the function", in, v)
					}
				}
				if r := (*op).Referrers(); r != nil && !slices.Contains(*r, in) {
					fail("%v is missing from the referrers of its operand %v", in, (*op).Name())
				}
			}
			if v, ok := in.(ssa.Value); ok {
				if r := v.Referrers(); r != nil {
					for _, u := range *r {
						if !inFunc[u] {
							// a referrer may live in a closure (free variable binding happens via MakeClosure in f): not expected
							fail("%v is referred to by %v outside the function", v.Name(), u)
						}
					}
				}
			}
		}
	}
}

// markBoolLocals finds the shape of `b := x && y; if b { … }` (or `if !b`): a block that holds nothing but φ-nodes, at
// most a negation of one of them, and the branch on it, where the tested φ merges a short-circuit evaluation (one of
// its edges is a boolean constant) and is used for nothing else. Written inside the `if`, the same condition is
// straight control flow; the block is handed to the jump-threading pass (thread.go), which gives it that shape, so
// that guard and dominance reasoning does not depend on where the programmer wrote the condition down. A negated
// test is first turned round (`if !b` with its successors exchanged is `if b`).
func (il *inliner) markBoolLocals(f *ssa.Function) bool {
	found := false
	for _, c := range f.Blocks {
		if il.marked[c] || len(c.Preds) < 2 || len(c.Instrs) < 2 || c == f.Blocks[0] || c == f.Recover {
			continue
		}
		ifi, ok := c.Instrs[len(c.Instrs)-1].(*ssa.If)
		if !ok || len(c.Succs) != 2 || c.Succs[0] == c.Succs[1] {
			continue
		}
		i := 0
		for ; i < len(c.Instrs); i++ {
			if _, ok := c.Instrs[i].(*ssa.Phi); !ok {
				break
			}
		}
		if i == 0 {
			continue
		}
		rest := c.Instrs[i : len(c.Instrs)-1]
		var phi *ssa.Phi
		var not *ssa.UnOp
		switch len(rest) {
		case 0:
			phi, _ = ifi.Cond.(*ssa.Phi)
		case 1:
			if u, ok := rest[0].(*ssa.UnOp); ok && u.Op == token.NOT && ifi.Cond == ssa.Value(u) {
				not = u
				phi, _ = u.X.(*ssa.Phi)
			}
		}
		if phi == nil || phi.Block() != c {
			continue
		}
		shortCircuit := false
		for _, e := range phi.Edges {
			if k, ok := e.(*ssa.Const); ok && k.Value != nil {
				shortCircuit = true
			}
		}
		if !shortCircuit {
			continue
		}
		// used for nothing but the branch
		soleUse := func(v ssa.Value, user ssa.Instruction) bool {
			if v.Referrers() == nil {
				return false
			}
			for _, r := range *v.Referrers() {
				if _, isDbg := r.(*ssa.DebugRef); isDbg {
					continue
				}
				if r != user {
					return false
				}
			}
			return true
		}
		if not != nil {
			if !soleUse(phi, not) || !soleUse(not, ifi) {
				continue
			}
			// if !b {A} else {B}  ==  if b {B} else {A}
			rebuildRefs(ifi, func() { ifi.Cond = phi })
			dropReferrers(not)
			c.Instrs = append(c.Instrs[:i:i], c.Instrs[len(c.Instrs)-1])
			c.Succs[0], c.Succs[1] = c.Succs[1], c.Succs[0]
		} else if !soleUse(phi, ifi) {
			continue
		}
		il.marked[c] = true
		found = true
	}
	return found
}
