package main

import (
	"fmt"
	"go/token"
	"go/types"
	"reflect"
	"regexp"
	"regexp/syntax"
	"strings"

	"golang.org/x/tools/go/ssa"
)

// Rules written after the seventh round of seeded changes (m/n).

// liveFuncs: module functions that still exist after helper inlining, closures included.
func (p *Prog) liveFuncs() []*ssa.Function {
	var out []*ssa.Function
	for _, fn := range p.Funcs {
		if p.Dropped[fn] || !inModule(fn) {
			continue
		}
		out = append(out, fn)
	}
	return out
}

// hasLock: the struct type holds a sync.Mutex / RWMutex / Once / WaitGroup / Map / Pool by value, directly or in an
// embedded / nested struct.
func hasLock(t types.Type, depth int) string {
	if depth > 4 {
		return ""
	}
	if nt, ok := t.(*types.Named); ok && nt.Obj().Pkg() != nil && nt.Obj().Pkg().Path() == "sync" {
		switch nt.Obj().Name() {
		case "Mutex", "RWMutex", "Once", "WaitGroup", "Map", "Pool", "Cond":
			return "sync." + nt.Obj().Name()
		}
	}
	if st, ok := t.Underlying().(*types.Struct); ok {
		for i := 0; i < st.NumFields(); i++ {
			if l := hasLock(st.Field(i).Type(), depth+1); l != "" {
				return l
			}
		}
	}
	if at, ok := t.Underlying().(*types.Array); ok {
		return hasLock(at.Elem(), depth+1)
	}
	return ""
}

func init() {
	register(&Rule{
		ID: "C02.R13", Props: []string{"C02", "C13"}, Min: 3,
		Doc: "truthiness decides conditions, bound attributes and class objects — never content: the positions that print a value (v-html, v-text, {{ }}) stringify what they evaluated without asking helpers.IsTruthy first. `0`, `false` and the string \"false\" are falsy and have a text; a content position that prints only truthy values shows nothing where {{ }} shows 0",
		Run: func(p *Prog, c *Ctx) {
			for _, name := range []string{"(*vuego.Vue).evalVHtml", "(*vuego.Vue).evalVText", "(*vuego.Vue).interpolateToWriter"} {
				fn := p.MustFn(name)
				var bad ssa.Instruction
				walkFuncTree(fn, func(f *ssa.Function) {
					for _, site := range callsIn(f) {
						if calleeName(site.Common()) == "helpers.IsTruthy" {
							bad = site
						}
					}
				})
				pos := p.pos(fn.Pos())
				if bad != nil {
					pos = p.instrPos(bad)
				}
				c.check(bad == nil, strings.TrimPrefix(name, "(*vuego.Vue).")+": prints whatever it evaluated", pos, "no truthiness test in a content position", "the value is tested with helpers.IsTruthy before it is printed: 0, 0.0, false and \"false\" are falsy, so the position prints nothing for them while the other content positions print their text")
			}
		},
	})

	register(&Rule{
		ID: "C06.R12", Props: []string{"C06", "C07"}, Min: 2,
		Doc: "the producers of slot content agree: every place that builds a SlotContent for a slot *template* (the ones that set its template node: the include's children in extractSlotContent, the page's slot templates in extractSlotsFromDOM) sets every field of it that some consumer reads — a field that one producer fills and the other leaves at its zero value (a scoped variable parsed ahead of time, say) makes the same `<template #name=\"p\">` behave differently depending on whether it was written in an include or in a page rendered through a layout",
		Run: func(p *Prog, c *Ctx) {
			get := p.MustFn("(*vuego.SlotScope).GetSlot")
			pt, ok := get.Signature.Results().At(0).Type().(*types.Pointer)
			if !ok {
				undecided("GetSlot no longer returns a pointer to the slot content")
			}
			st, ok := pt.Elem().Underlying().(*types.Struct)
			if !ok {
				undecided("slot content is not a struct")
			}
			nodeField := -1
			for i := 0; i < st.NumFields(); i++ {
				if isNamed(st.Field(i).Type(), "golang.org/x/net/html", "Node") {
					if _, isPtr := st.Field(i).Type().(*types.Pointer); isPtr {
						nodeField = i
					}
				}
			}
			if nodeField < 0 {
				undecided("slot content has no template-node field")
			}
			isT := func(t types.Type) bool {
				if q, ok := t.(*types.Pointer); ok {
					t = q.Elem()
				}
				return types.Identical(t, pt.Elem())
			}
			read := map[int]ssa.Instruction{}
			type producer struct {
				al  *ssa.Alloc
				set map[int]bool
			}
			var prods []producer
			for _, fn := range p.liveFuncs() {
				eachInstr(fn, func(in ssa.Instruction) {
					switch x := in.(type) {
					case *ssa.FieldAddr:
						if !isT(x.X.Type()) || x.Referrers() == nil {
							return
						}
						for _, r := range *x.Referrers() {
							if ld, ok := r.(*ssa.UnOp); ok && ld.Op == token.MUL {
								read[x.Field] = ld
							}
						}
					case *ssa.Field:
						if isT(x.X.Type()) {
							read[x.Field] = x
						}
					case *ssa.Alloc:
						if !isT(x.Type()) || x.Referrers() == nil {
							return
						}
						pr := producer{al: x, set: map[int]bool{}}
						for _, r := range *x.Referrers() {
							fa, ok := r.(*ssa.FieldAddr)
							if !ok || fa.Referrers() == nil {
								continue
							}
							for _, rr := range *fa.Referrers() {
								if s, ok := rr.(*ssa.Store); ok && s.Addr == ssa.Value(fa) {
									pr.set[fa.Field] = true
								}
							}
						}
						prods = append(prods, pr)
					}
				})
			}
			var tmpl []producer
			for _, pr := range prods {
				if pr.set[nodeField] {
					tmpl = append(tmpl, pr)
				}
			}
			if len(tmpl) < 2 {
				c.note("%d producers of template-form slot content", len(tmpl))
			}
			n := map[string]int{}
			for _, pr := range tmpl {
				fnName := shortName(rootFunc(pr.al.Parent()))
				n[fnName]++
				missing := ""
				var reader ssa.Instruction
				for _, other := range tmpl {
					for f := range other.set {
						if _, isRead := read[f]; isRead && !pr.set[f] {
							missing = st.Field(f).Name()
							reader = read[f]
						}
					}
				}
				key := fmt.Sprintf("%s: slot template content#%d sets what the others set", fnName, n[fnName])
				if missing == "" {
					c.ok(key, p.instrPos(pr.al), "same consumer-read fields as every other producer")
				} else {
					c.fail(key, p.instrPos(pr.al), fmt.Sprintf("this producer of slot-template content leaves field %s at its zero value while another producer fills it and %s reads it (%s): the same slot template behaves differently depending on where it was written", missing, shortName(reader.Parent()), p.instrPos(reader)))
				}
			}
		},
	})

	register(&Rule{
		ID: "C06.R13", Props: []string{"C06"}, Min: 1,
		Doc: "slot props are what the slot binds: every entry the slot evaluator puts into the props map it hands to the supplied content has a value that was computed by an evaluator from a binding (`:row=\"r\"`) and a key cut out of the binding's attribute name — the text of a static attribute of the <slot> element (its own `name` above all) is not a prop: spread into the content's scope it shadows the includer's variable of that name",
		Run: func(p *Prog, c *Ctx) {
			fn := p.MustFn("(*vuego.Vue).evalSlot")
			n := 0
			isAttrField := func(v ssa.Value, name string) bool {
				switch x := v.(type) {
				case *ssa.Field:
					return isNamed(x.X.Type(), "golang.org/x/net/html", "Attribute") && fieldNameStruct(x.X.Type(), x.Field) == name
				case *ssa.UnOp:
					if fa, ok := x.X.(*ssa.FieldAddr); ok && x.Op == token.MUL {
						return isNamed(fa.X.Type(), "golang.org/x/net/html", "Attribute") && fieldName(fa.X.Type(), fa.Field) == name
					}
				}
				return false
			}
			eachInstr(fn, func(in ssa.Instruction) {
				mu, ok := in.(*ssa.MapUpdate)
				if !ok {
					return
				}
				local := false
				for _, o := range p.origins(mu.Map, OriginOpts{}) {
					if mk, ok := o.(*ssa.MakeMap); ok && mk.Parent() == fn {
						local = true
					}
				}
				if !local {
					return
				}
				fromKey := false
				wholeKey := isAttrField(mu.Key, "Key")
				var walk func(v ssa.Value, d int)
				seen := map[ssa.Value]bool{}
				walk = func(v ssa.Value, d int) {
					if v == nil || seen[v] || d > 6 {
						return
					}
					seen[v] = true
					if isAttrField(v, "Key") {
						fromKey = true
						return
					}
					switch x := v.(type) {
					case *ssa.Slice:
						walk(x.X, d+1)
					case *ssa.Phi:
						for _, e := range x.Edges {
							walk(e, d+1)
						}
					case *ssa.Call:
						for _, a := range x.Call.Args {
							walk(a, d+1)
						}
					case *ssa.Extract:
						walk(x.Tuple, d+1)
					}
				}
				walk(mu.Key, 0)
				if !fromKey {
					return
				}
				n++
				raw := false
				for _, o := range append(p.origins(mu.Value, OriginOpts{}), mu.Value) {
					if mi, ok := o.(*ssa.MakeInterface); ok {
						o = mi.X
					}
					if isAttrField(o, "Val") {
						raw = true
					}
				}
				key := fmt.Sprintf("evalSlot: slot prop#%d is an evaluated binding", n)
				switch {
				case raw:
					c.fail(key, p.instrPos(mu), "the text of an attribute of the <slot> element is passed to the supplied content as a prop without evaluation: static attributes — the slot's own `name` among them — become variables of the content and shadow the includer's variables of the same name")
				case wholeKey:
					c.fail(key, p.instrPos(mu), "a prop is stored under the attribute's whole name, not under the name cut out of a binding (`:row` → row): attributes that are not bindings become props")
				default:
					c.ok(key, p.instrPos(mu), "value computed by an evaluator, key cut out of the binding's name")
				}
			})
			if n == 0 {
				undecided("evalSlot no longer collects the props a slot binds into a map of its own")
			}
		},
	})

	register(&Rule{
		ID: "C08.R13", Props: []string{"C08", "C07", "C05", "C15"}, Min: 2,
		Doc: "a front-matter fence is three dashes at the start of a line, whatever ends the line: the byte strings extractFrontMatter searches for to find the opening and the closing fence do not include the line terminator that follows the dashes (`---\\n`), unless the `\\r\\n` form is looked for as well — a file saved with CRLF line endings, or with a blank after the dashes, otherwise has no front-matter: its `layout:` and every variable it defines silently disappear and the YAML is printed as text",
		Run: func(p *Prog, c *Ctx) {
			fn := p.MustFn("vuego.extractFrontMatter")
			type fence struct {
				s  string
				at ssa.Instruction
			}
			var fences []fence
			handlesCR := false
			eachInstr(fn, func(in ssa.Instruction) {
				site, ok := in.(ssa.CallInstruction)
				if !ok {
					return
				}
				nm := calleeName(site.Common())
				if !strings.HasPrefix(nm, "bytes.") && !strings.HasPrefix(nm, "strings.") && !strings.HasPrefix(nm, "regexp.") {
					return
				}
				for _, a := range site.Common().Args {
					v := a
					if cv, ok := v.(*ssa.Convert); ok {
						v = cv.X
					}
					s, ok := constString(v)
					if !ok {
						continue
					}
					if strings.Contains(s, "\r") {
						handlesCR = true
					}
					if strings.Contains(s, "---") {
						fences = append(fences, fence{s, site})
					}
				}
			})
			if len(fences) == 0 {
				undecided("extractFrontMatter no longer searches for a `---` fence with the bytes/strings functions")
			}
			for i, f := range fences {
				rest := f.s[strings.LastIndex(f.s, "---")+3:]
				demandsLF := strings.HasPrefix(rest, "\n") || strings.HasPrefix(rest, "$") || strings.HasPrefix(rest, `\n`)
				c.check(!demandsLF || handlesCR, fmt.Sprintf("extractFrontMatter: fence#%d does not depend on the line ending", i+1), p.instrPos(f.at), fmt.Sprintf("searches for %q", f.s), fmt.Sprintf("the fence is searched for as %q: only a bare line feed may follow the dashes, so a file with CRLF line endings (or a blank after the dashes) is taken to have no front-matter — its layout and variables are lost and the YAML block is rendered as text", f.s))
			}
		},
	})

	register(&Rule{
		ID: "C10.R9", Props: []string{"C10", "C09"}, Min: 1,
		Doc: "what a process-wide cache holds is never written again: a value handed to a package-level sync.Map (Store, LoadOrStore) or read from one — and every value reached from it: through type assertions, returns to callers, parameters of module functions, elements and fields — is not the target of a store, a map update or an append-in-place afterwards. A parsed style list that callers `own` and overwrite, or an index that is published empty and filled afterwards, makes one render's data visible in the next and is a data race between two",
		Run: func(p *Prog, c *Ctx) {
			t := newROTaint(p)
			fromGlobal := func(v ssa.Value) *ssa.Global {
				for _, o := range append(p.origins(v, OriginOpts{}), v) {
					switch x := o.(type) {
					case *ssa.Global:
						if inModulePkg(x.Pkg) {
							return x
						}
					case *ssa.FieldAddr:
						if g, ok := x.X.(*ssa.Global); ok && inModulePkg(g.Pkg) {
							return g
						}
					case *ssa.UnOp:
						if g, ok := x.X.(*ssa.Global); ok && inModulePkg(g.Pkg) {
							return g
						}
					}
				}
				return nil
			}
			caches := map[*ssa.Global]int{}
			for _, fn := range p.liveFuncs() {
				for _, site := range callsIn(fn) {
					nm := calleeName(site.Common())
					if !strings.HasPrefix(nm, "(*sync.Map).") {
						continue
					}
					g := fromGlobal(site.Common().Args[0])
					if g == nil {
						continue
					}
					caches[g]++
					cv, _ := site.(*ssa.Call)
					seedArg := func(a ssa.Value) {
						why := fmt.Sprintf("published into package-level %s by %s at %s", g.Name(), strings.TrimPrefix(nm, "(*sync.Map)."), p.instrPos(site))
						if mi, ok := a.(*ssa.MakeInterface); ok {
							if refOnly(mi.X.Type()) {
								t.after[mi.X] = site
								t.seed(mi.X, why)
							}
						}
						t.after[a] = site
						t.seed(a, why)
					}
					seedRes := func(idx int) {
						if cv == nil || cv.Referrers() == nil {
							return
						}
						for _, r := range *cv.Referrers() {
							if ex, ok := r.(*ssa.Extract); ok && ex.Index == idx {
								t.seed(ex, fmt.Sprintf("read from package-level %s by %s at %s", g.Name(), strings.TrimPrefix(nm, "(*sync.Map)."), p.instrPos(site)))
							}
						}
					}
					switch strings.TrimPrefix(nm, "(*sync.Map).") {
					case "Load", "LoadAndDelete":
						seedRes(0)
					case "Store":
						seedArg(site.Common().Args[2])
					case "LoadOrStore", "Swap":
						seedArg(site.Common().Args[2])
						seedRes(0)
					case "CompareAndSwap":
						seedArg(site.Common().Args[3])
					case "Range":
						if f := funcValue(site.Common().Args[1]); f != nil && len(f.Params) >= 2 {
							t.seed(f.Params[len(f.Params)-1], fmt.Sprintf("visited in package-level %s at %s", g.Name(), p.instrPos(site)))
						}
					}
				}
			}
			// package-level maps and slices whose elements are references
			globals := 0
			for _, pk := range p.SSA.AllPackages() {
				if !inModulePkg(pk) {
					continue
				}
				for _, m := range pk.Members {
					g, ok := m.(*ssa.Global)
					if !ok || strings.HasPrefix(g.Name(), "init$") {
						continue
					}
					globals++
					el := g.Type().(*types.Pointer).Elem()
					var elem types.Type
					switch u := el.Underlying().(type) {
					case *types.Map:
						elem = u.Elem()
					case *types.Slice:
						elem = u.Elem()
					}
					if elem == nil || !refOnly(elem) {
						continue
					}
					if _, isSig := elem.Underlying().(*types.Signature); isSig {
						continue
					}
					if g.Referrers() == nil {
						continue
					}
				}
			}
			t.run()
			c.note("%d package-level variables, %d package-level sync.Map caches, %d values followed", globals, len(caches), len(t.why))
			c.ok("package-level caches examined", "-", fmt.Sprintf("%d sync.Map caches; every value stored or loaded followed to all uses", len(caches)))
			for g, n := range caches {
				c.ok("cache "+g.Name()+": values followed", p.pos(g.Pos()), fmt.Sprintf("%d accesses", n))
			}
			for _, vi := range t.viol {
				c.fail(fmt.Sprintf("%s: %s on a cached value", shortName(vi.at.Parent()), vi.what), p.instrPos(vi.at), vi.what+" on a value that lives in a process-wide cache: "+shortWhy(vi.why)+" — every later render (of any engine in the process) sees what this render wrote, and two renders at once race on it")
			}
		},
	})

	register(&Rule{
		ID: "C09.R9", Props: []string{"C09"}, Min: 1,
		Doc: "an engine object is never copied by value: a struct that holds a lock (sync.Mutex / RWMutex / Once …) next to the state the lock guards — Vue with its template cache, the expression evaluator with its program cache, the loader — is only ever handled through pointers. `vue := *t.vue` gives the copy a lock of its own in front of the *same* map: requests that go through the copy and requests that go through the original no longer exclude one another",
		Run: func(p *Prog, c *Ctx) {
			locked := map[string]string{}
			for _, pk := range p.Pkgs {
				sc := pk.Types.Scope()
				for _, nm := range sc.Names() {
					tn, ok := sc.Lookup(nm).(*types.TypeName)
					if !ok || tn.IsAlias() {
						continue
					}
					if _, isStruct := tn.Type().Underlying().(*types.Struct); !isStruct {
						continue
					}
					if l := hasLock(tn.Type(), 0); l != "" {
						locked[typeStringFull(tn.Type())] = l
					}
				}
			}
			if len(locked) == 0 {
				undecided("no module struct holds a lock")
			}
			copies := map[string]ssa.Instruction{}
			for _, fn := range p.liveFuncs() {
				eachInstr(fn, func(in ssa.Instruction) {
					var t types.Type
					switch x := in.(type) {
					case *ssa.UnOp:
						if x.Op == token.MUL {
							t = x.Type()
						}
					case *ssa.Store:
						// storing a composite literal's zero value into a fresh object is construction, not a copy
						if _, isLoad := x.Val.(*ssa.UnOp); isLoad {
							t = x.Val.Type()
						}
					}
					if t == nil {
						return
					}
					if _, isStruct := t.Underlying().(*types.Struct); !isStruct {
						return
					}
					if _, ok := locked[typeStringFull(t)]; ok {
						if _, dup := copies[typeStringFull(t)]; !dup {
							copies[typeStringFull(t)] = in
						}
					}
				})
			}
			for _, name := range sortedKeys(locked) {
				short := name[strings.LastIndex(name, "/")+1:]
				if at, bad := copies[name]; bad {
					c.fail(short+": handled through pointers only", p.instrPos(at), fmt.Sprintf("a %s value is copied (its %s with it) in %s: the copy locks a lock of its own while the maps and caches behind it stay shared with the original — accesses through the copy and through the original are not mutually exclusive any more", short, locked[name], shortName(at.Parent())))
				} else {
					c.ok(short+": handled through pointers only", "-", "no load or store of a whole "+short+" value (holds "+locked[name]+")")
				}
			}
		},
	})

	register(&Rule{
		ID: "C12.R5", Props: []string{"C12"}, Min: 1, Local: true,
		Doc: "a write's error is not parked where nobody looks: in the serialiser and every other function that holds the destination writer, the error result of each Write / WriteString on an io.Writer-typed value reaches the function's error return — directly, through a local, or through a field of a local `sticky error` helper that is read again before the return. An error stored into a field of a *copy* of such a helper (a method declared on the value, not the pointer) is never seen again: the render reports success for a document the writer refused",
		Run: func(p *Prog, c *Ctx) {
			d := p.destTaint()
			holders := map[*ssa.Function]bool{}
			for k := range d {
				holders[k.fn] = true
			}
			n := 0
			for _, fn := range sortedFuncs(holders) {
				if p.Dropped[fn] {
					continue
				}
				for _, site := range callsIn(fn) {
					cc := site.Common()
					isWrite := false
					if cc.IsInvoke() && (cc.Method.Name() == "Write" || cc.Method.Name() == "WriteString") && isWriterType(cc.Value.Type()) {
						isWrite = true
					}
					if nm := calleeName(cc); nm == "io.WriteString" {
						isWrite = true
					}
					if !isWrite || !returnsError(cc) {
						continue
					}
					if p.destArg(site, d) != nil {
						continue // C12.R1's obligation
					}
					// only writers this analysis cannot name: a field of a local struct (a wrapper made in this function)
					recv := cc.Value
					if !cc.IsInvoke() {
						recv = cc.Args[0]
					}
					viaLocalStruct := false
					for _, o := range append(p.origins(recv, OriginOpts{}), recv) {
						ld, ok := o.(*ssa.UnOp)
						if !ok || ld.Op != token.MUL {
							continue
						}
						if fa, ok := ld.X.(*ssa.FieldAddr); ok {
							if _, ok := fa.X.(*ssa.Alloc); ok {
								viaLocalStruct = true
							}
						}
					}
					if !viaLocalStruct {
						continue
					}
					n++
					ok, why := errorPropagated(site)
					c.check(ok, fmt.Sprintf("%s: write through a local helper#%d reports its error", shortName(fn), n), p.instrPos(site), "the error reaches the return", "a write made through a local helper struct drops its error: "+why+" (an error kept in a field of a by-value copy of the helper is lost with the copy); a failing destination yields a nil error")
				}
			}
			c.ok("writer-holding functions examined", "-", fmt.Sprintf("%d functions hold the destination; %d writes go through a local helper struct", len(holders), n))
		},
	})

	register(&Rule{
		ID: "C13.R23", Props: []string{"C13", "C03"}, Min: 1,
		Doc: "a literal index is digits or a quoted key: where IsVariablePath decides what the text between [ ] may be for the whole expression to count as a plain path (the scope lookup then walks it), no lenient number parser — strconv.Atoi / ParseInt / ParseFloat, which also read signs, and for floats exponents, inf and nan — is asked, unless the first byte was tested first. `items[-1]` is an expression (the evaluator counts from the end); taken for a path it is looked up, not found, and prints nothing in {{ }} and bound attributes while v-if still sees the last element",
		Run: func(p *Prog, c *Ctx) {
			fns := []*ssa.Function{p.MustFn("helpers.IsVariablePath")}
			if f := p.Fn("helpers.isLiteralIndex"); f != nil && !p.Dropped[f] {
				fns = append(fns, f)
			}
			n := 0
			for _, fn := range fns {
				for _, site := range callsIn(fn) {
					nm := calleeName(site.Common())
					if nm != "strconv.Atoi" && nm != "strconv.ParseInt" && nm != "strconv.ParseFloat" {
						continue
					}
					n++
					arg := site.Common().Args[0]
					guarded := false
					for _, g := range controllingIfs(site) {
						if looksAtFirstByte(g.If.Cond, arg, 0) && firstByteDigitTested(site, arg) {
							guarded = true
						}
					}
					c.check(guarded, fmt.Sprintf("%s: %s#%d only on digit-led text", shortName(fn), nm, n), p.instrPos(site), "guarded by a test of the first byte", nm+" decides whether a bracket holds a literal index: it also accepts a sign, so items[-1] (an expression: the last element) is classified as a plain path, which the scope lookup cannot resolve — empty in {{ }} and bound attributes, the last element in v-if")
				}
			}
			if n == 0 {
				c.ok("IsVariablePath: no lenient number parser", p.pos(fns[0].Pos()), "the literal-index test reads the digits itself")
			}
		},
	})

	register(&Rule{
		ID: "C14.R15", Props: []string{"C14"}, Min: 1,
		Doc: "only camelCase keys of a :style object are rewritten: the camelCase → kebab-case conversion is applied to a key under a test that the key contains no hyphen (or inside a converter that makes that test itself). A key that is written with hyphens is a property name as it stands — CSS custom properties (`--brandColor`) are case-sensitive, and a rewritten one neither declares the same variable nor overrides the same-named static declaration",
		Run: func(p *Prog, c *Ctx) {
			fn := p.MustFn("(*vuego.Vue).buildStyleString")
			hyphenTest := func(cond ssa.Value, subject ssa.Value) bool {
				found := false
				var walk func(v ssa.Value, d int)
				seen := map[ssa.Value]bool{}
				walk = func(v ssa.Value, d int) {
					if v == nil || seen[v] || d > 5 {
						return
					}
					seen[v] = true
					switch x := v.(type) {
					case *ssa.BinOp:
						walk(x.X, d+1)
						walk(x.Y, d+1)
					case *ssa.UnOp:
						walk(x.X, d+1)
					case *ssa.Call:
						nm := calleeName(&x.Call)
						if strings.HasPrefix(nm, "strings.") && len(x.Call.Args) == 2 && (x.Call.Args[0] == subject || sameValue(x.Call.Args[0], subject)) {
							if s, ok := constString(x.Call.Args[1]); ok && strings.Contains(s, "-") {
								found = true
							}
							if k, ok := constInt(x.Call.Args[1]); ok && k == '-' {
								found = true
							}
						}
					}
				}
				walk(cond, 0)
				return found
			}
			n := 0
			walkFuncTree(fn, func(f *ssa.Function) {
				for _, site := range callsIn(f) {
					nm := calleeName(site.Common())
					if nm != "vuego.camelToKebab" && nm != "helpers.CamelToKebab" {
						continue
					}
					n++
					arg := site.Common().Args[0]
					guarded := false
					for _, g := range controllingIfs(site) {
						if hyphenTest(g.If.Cond, arg) {
							guarded = true
						}
					}
					if !guarded {
						// the converter makes the test itself
						if callee := site.Common().StaticCallee(); callee != nil && len(callee.Params) == 1 {
							eachInstr(callee, func(in ssa.Instruction) {
								if ifi, ok := in.(*ssa.If); ok && hyphenTest(ifi.Cond, callee.Params[0]) {
									guarded = true
								}
							})
						}
					}
					c.check(guarded, fmt.Sprintf("buildStyleString: %s#%d only for keys without a hyphen", nm, n), p.instrPos(site), "under a test for '-'", "every :style key goes through the camelCase converter: a key that already contains hyphens and a capital letter — a case-sensitive custom property such as --brandColor — is rewritten to another name, declares a different variable and no longer overrides the static declaration of the same name")
				}
			})
			if n == 0 {
				undecided("buildStyleString no longer calls a camelCase → kebab-case converter")
			}
		},
	})

	register(&Rule{
		ID: "C15.R5", Props: []string{"C15"}, Min: 1,
		Doc: "stat first, then read: the modification time recorded in a template cache entry comes from an fs.Stat that was made *before* the file was read for that entry. A time taken after the read can belong to a later revision than the content that was parsed — the entry then passes the mtime comparison for good and the older content is served forever; a time taken before can only be too old, which costs one more reload",
		Run: func(p *Prog, c *Ctx) {
			fn := p.MustFn("(*vuego.Vue).loadCachedWithFrontMatter")
			var reads []ssa.CallInstruction
			for _, site := range callsIn(fn) {
				switch calleeName(site.Common()) {
				case "(*vuego.Loader).loadFragment", "io/fs.ReadFile", "(*vuego.Loader).Load", "(*vuego.Loader).LoadFragment", "os.ReadFile":
					reads = append(reads, site)
				}
			}
			if len(reads) == 0 {
				undecided("loadCachedWithFrontMatter no longer reads the file through the loader")
			}
			n := 0
			eachInstr(fn, func(in ssa.Instruction) {
				st, ok := in.(*ssa.Store)
				if !ok {
					return
				}
				fv := fieldVar(st.Addr)
				if fv == nil || !fieldIs(fv, "modTime") {
					return
				}
				n++
				var stats []*ssa.Call
				var walk func(v ssa.Value, d int)
				seen := map[ssa.Value]bool{}
				walk = func(v ssa.Value, d int) {
					if v == nil || seen[v] || d > 8 {
						return
					}
					seen[v] = true
					for _, o := range append(p.origins(v, OriginOpts{}), v) {
						switch x := o.(type) {
						case *ssa.Call:
							nm := calleeName(&x.Call)
							if nm == "io/fs.Stat" || nm == "(*vuego.Loader).Stat" || nm == "os.Stat" || strings.HasSuffix(nm, ".Stat") {
								stats = append(stats, x)
								continue
							}
							if x.Call.IsInvoke() {
								walk(x.Call.Value, d+1)
							}
							for _, a := range x.Call.Args {
								walk(a, d+1)
							}
						case *ssa.Extract:
							walk(x.Tuple, d+1)
						}
					}
				}
				walk(st.Val, 0)
				if len(stats) == 0 {
					c.fail(fmt.Sprintf("cache entry#%d records the time of a Stat made before the read", n), p.instrPos(st), "the recorded modification time does not come from a Stat of this call")
					return
				}
				bad := ""
				for _, s := range stats {
					for _, r := range reads {
						if s.Parent() == r.Parent() && canFollow(r, s) && !canFollow(s, r) {
							bad = fmt.Sprintf("the Stat at %s that supplies the recorded time runs after the read at %s", p.instrPos(s), p.instrPos(r))
						}
					}
				}
				c.check(bad == "", fmt.Sprintf("cache entry#%d records the time of a Stat made before the read", n), p.instrPos(st), "Stat precedes the read", bad+": an edit that lands between the two is recorded as seen although the older content was parsed — the stale entry then validates on every later render")
			})
			if n == 0 {
				undecided("no store to a cache entry's modification time in loadCachedWithFrontMatter")
			}
		},
	})

	register(&Rule{
		ID: "C16.R11", Props: []string{"C16"}, Min: 1,
		Doc: "the v-once record only grows during a render: nothing in the module deletes from the render context's seen set, clears it, or stores false into it — an element that was emitted stays emitted, whatever a later directive (v-show hiding it, a failed branch) thinks of that instance; an entry taken back makes the next instantiation emit the element a second time",
		Run: func(p *Prog, c *Ctx) {
			n, marks := 0, 0
			for _, fn := range p.liveFuncs() {
				eachInstr(fn, func(in ssa.Instruction) {
					switch x := in.(type) {
					case *ssa.MapUpdate:
						if f := loadedField(x.Map); f != nil && fieldIs(f, "seen") {
							marks++
							if k, ok := x.Value.(*ssa.Const); ok && k.Value != nil && k.Value.String() == "false" {
								n++
								c.fail(fmt.Sprintf("%s: un-marks a v-once element#%d", shortName(fn), n), p.instrPos(x), "false is stored into the v-once record: the element counts as not emitted again")
							}
						}
					case ssa.CallInstruction:
						nm := calleeName(x.Common())
						if nm != "builtin.delete" && nm != "builtin.clear" && nm != "maps.DeleteFunc" && nm != "maps.Clear" {
							return
						}
						if len(x.Common().Args) == 0 {
							return
						}
						if f := loadedField(x.Common().Args[0]); f != nil && fieldIs(f, "seen") {
							n++
							c.fail(fmt.Sprintf("%s: removes from the v-once record#%d", shortName(fn), n), p.instrPos(x), nm+" on the render's v-once record: the instance that evaluate has already recorded and is about to emit counts as never emitted, so the next instantiation of the element is emitted as well")
						}
					}
				})
			}
			if marks == 0 {
				undecided("nothing marks elements in the v-once record")
			}
			c.ok("v-once record: entries are only added", "-", fmt.Sprintf("%d marking sites, no removal", marks))
		},
	})

	register(&Rule{
		ID: "C18.R10", Props: []string{"C18"}, Min: 3, Local: true,
		Doc: "a nil layer is passed over, not a stop sign: in every loop over the overlay's layer list — in a method or in an iterator closure the methods share — the edge taken when the layer is nil leads to the next round of that loop. A nil test folded into the loop's exit condition (`if layer == nil || !yield(layer) { return }`) ends the walk at the first nil layer, and every layer below it is never asked",
		Run: func(p *Prog, c *Ctx) {
			n := 0
			for _, fn := range p.liveFuncs() {
				eachInstr(fn, func(in ssa.Instruction) {
					ifi, ok := in.(*ssa.If)
					if !ok {
						return
					}
					b, ok := ifi.Cond.(*ssa.BinOp)
					if !ok || (b.Op != token.EQL && b.Op != token.NEQ) || !(isNilConst(b.X) || isNilConst(b.Y)) {
						return
					}
					elem := b.X
					if isNilConst(b.X) {
						elem = b.Y
					}
					// an element of the layer list
					isLayer := false
					for _, o := range append(p.origins(elem, OriginOpts{}), elem) {
						ld, ok := o.(*ssa.UnOp)
						if !ok || ld.Op != token.MUL {
							continue
						}
						ia, ok := ld.X.(*ssa.IndexAddr)
						if !ok {
							continue
						}
						for _, oo := range append(p.origins(ia.X, OriginOpts{}), ia.X) {
							if f := loadedField(oo); f != nil && fieldIs(f, "chainFS") {
								isLayer = true
							}
						}
					}
					if !isLayer {
						return
					}
					// the innermost loop that holds the test
					var header *ssa.BasicBlock
					for x := ifi.Block(); x != nil; x = x.Idom() {
						isHeader := false
						for _, pr := range x.Preds {
							if x.Dominates(pr) {
								isHeader = true
							}
						}
						if isHeader && loopBlocks(x)[ifi.Block()] {
							header = x
							break
						}
					}
					if header == nil {
						return
					}
					n++
					nilSucc := ifi.Block().Succs[0]
					if b.Op == token.NEQ {
						nilSucc = ifi.Block().Succs[1]
					}
					lb := loopBlocks(header)
					// from the nil edge: can the function leave the loop without passing the header again?
					leaves := false
					seen := map[*ssa.BasicBlock]bool{}
					work := []*ssa.BasicBlock{nilSucc}
					for len(work) > 0 {
						x := work[len(work)-1]
						work = work[:len(work)-1]
						if seen[x] || x == header {
							continue
						}
						seen[x] = true
						if !lb[x] {
							leaves = true
							break
						}
						if len(x.Succs) == 0 {
							leaves = true
							break
						}
						work = append(work, x.Succs...)
					}
					c.check(!leaves, fmt.Sprintf("%s: nil layer#%d goes on to the next layer", shortName(fn), n), p.instrPos(ifi), "the nil edge continues the loop", "when a layer is nil the walk over the layers ends (the nil edge leaves the loop) instead of moving on: every layer below the first nil layer is never consulted — paths only a lower layer has report not-exist, listings and globs lose the lower layers' entries")
				})
			}
			if n == 0 {
				undecided("no loop over the overlay's layer list tests a layer for nil")
			}
		},
	})

	entityRe := regexp.MustCompile(`^(&[a-zA-Z#][a-zA-Z0-9]*;)+$`)
	register(&Rule{
		ID: "C19.R16", Props: []string{"C19"}, Min: 2,
		Doc: "every byte of a {{ }} expression gets the look-ahead: the formatter's writeMustache decides for each `<` and `&` from the byte that follows whether the HTML parser would read markup or a character reference there — it advances one byte per round, and the only constant texts it writes in place of input bytes are character references. A round that swallows two bytes (`&&` as `one token`) writes the second ampersand without its look-ahead: `{{ a &&copy }}` comes back from the parser as `{{ a &©` — the expression changed, and formatting again changes it again",
		Run: func(p *Prog, c *Ctx) {
			fn := p.MustFn("formatter.writeMustache")
			// (a) constants written
			n := 0
			bad := ""
			var badAt ssa.Instruction
			for _, site := range callsIn(fn) {
				nm := calleeName(site.Common())
				if !strings.HasSuffix(nm, ".WriteString") && !strings.HasSuffix(nm, ".WriteByte") && !strings.HasSuffix(nm, ".WriteRune") && !strings.HasSuffix(nm, ".Write") && nm != "io.WriteString" {
					continue
				}
				args := site.Common().Args
				s, ok := constString(args[len(args)-1])
				if !ok {
					if k, isK := constInt(args[len(args)-1]); isK {
						s, ok = string(rune(k)), true
					}
				}
				if !ok {
					continue
				}
				n++
				if strings.ContainsAny(s, "&<") && !entityRe.MatchString(s) {
					bad = s
					badAt = site
				}
			}
			pos := p.pos(fn.Pos())
			if badAt != nil {
				pos = p.instrPos(badAt)
			}
			c.check(bad == "", "writeMustache: constant texts are character references", pos, fmt.Sprintf("%d constants written, all of the form &name;", n), fmt.Sprintf("writeMustache writes the constant %q: a raw `&` or `<` goes out without the look-ahead on the byte that follows it in the output", bad))
			// (b) the scan advances one byte per round
			var idxPhi *ssa.Phi
			eachInstr(fn, func(in ssa.Instruction) {
				ph, ok := in.(*ssa.Phi)
				if !ok || idxPhi != nil {
					return
				}
				if bt, ok := ph.Type().Underlying().(*types.Basic); !ok || bt.Info()&types.IsInteger == 0 {
					return
				}
				isHeader := false
				for _, pr := range ph.Block().Preds {
					if ph.Block().Dominates(pr) {
						isHeader = true
					}
				}
				if !isHeader {
					return
				}
				// used to index the input
				used := false
				if ph.Referrers() != nil {
					for _, r := range *ph.Referrers() {
						switch x := r.(type) {
						case *ssa.Lookup:
							if x.Index == ssa.Value(ph) {
								used = true
							}
						case *ssa.IndexAddr:
							if x.Index == ssa.Value(ph) {
								used = true
							}
						}
					}
				}
				if used {
					idxPhi = ph
				}
			})
			if idxPhi == nil {
				c.ok("writeMustache: one byte per round", p.pos(fn.Pos()), "no index variable: the input is ranged over")
				return
			}
			skip := false
			for i, e := range idxPhi.Edges {
				pr := idxPhi.Block().Preds[i]
				if !idxPhi.Block().Dominates(pr) {
					continue // entry edge
				}
				// back edge: must be φ + 1
				okStep := false
				if bo, ok := e.(*ssa.BinOp); ok && bo.Op == token.ADD && bo.X == ssa.Value(idxPhi) {
					if k, isK := constInt(bo.Y); isK && k == 1 {
						okStep = true
					}
				}
				if !okStep {
					skip = true
				}
			}
			c.check(!skip, "writeMustache: one byte per round", p.instrPos(idxPhi), "the index advances by exactly one", "some round of the scan advances the index by more than one byte: the byte that is skipped is written (or dropped) without the per-byte decision — a second `&` or a `<` after it reaches the output unescaped although a letter follows")
		},
	})

	register(&Rule{
		ID: "C19.R17", Props: []string{"C19"}, Min: 1,
		Doc: "a document is recognised behind any leading blank: the text on which Formatter.Format tests for `<!DOCTYPE` / `<html` has had all leading white space removed (TrimSpace, TrimLeft / TrimLeftFunc over space, tab, CR and LF, the module's HTML-space trimmer) — not line feeds only. A document that is indented, or starts with a CRLF blank line, otherwise goes to the fragment formatter, which parses it in body context: doctype, <html>, <head> and <body> with all their attributes are gone from the result",
		Run: func(p *Prog, c *Ctx) {
			fn := p.MustFn("(*formatter.Formatter).Format")
			n := 0
			trims := func(v ssa.Value) bool {
				okAll := false
				var walk func(v ssa.Value, d int) bool
				walk = func(v ssa.Value, d int) bool {
					if d > 6 {
						return false
					}
					for _, o := range append(p.origins(v, OriginOpts{}), v) {
						cl, ok := o.(*ssa.Call)
						if !ok {
							continue
						}
						nm := calleeName(&cl.Call)
						switch {
						case nm == "strings.TrimSpace" || nm == "helpers.TrimHTMLSpace" || nm == "bytes.TrimSpace":
							return true
						case nm == "strings.TrimLeft" || nm == "strings.Trim":
							if s, ok := constString(cl.Call.Args[1]); ok && strings.Contains(s, " ") && strings.Contains(s, "\t") && strings.Contains(s, "\r") && strings.Contains(s, "\n") {
								return true
							}
							// a narrower trim may sit on top of a full one
							if walk(cl.Call.Args[0], d+1) {
								return true
							}
						case nm == "strings.TrimLeftFunc" || nm == "strings.TrimFunc":
							if f := funcValue(cl.Call.Args[1]); f != nil && (f.String() == "unicode.IsSpace" || strings.HasSuffix(f.String(), "IsHTMLSpace")) {
								return true
							}
						case nm == "strings.ToLower" || nm == "strings.ToUpper" || nm == "strings.TrimPrefix" || nm == "strings.TrimRight" || nm == "strings.TrimSuffix":
							if walk(cl.Call.Args[0], d+1) {
								return true
							}
						}
					}
					return false
				}
				okAll = walk(v, 0)
				return okAll
			}
			for _, site := range callsIn(fn) {
				nm := calleeName(site.Common())
				args := site.Common().Args
				if len(args) != 2 {
					continue
				}
				if nm != "formatter.hasPrefixFold" && nm != "strings.HasPrefix" && nm != "strings.EqualFold" {
					continue
				}
				s, ok := constString(args[1])
				if !ok || !(strings.EqualFold(s, "<!DOCTYPE") || strings.EqualFold(s, "<html")) {
					continue
				}
				n++
				subject := args[0]
				if sl, ok := subject.(*ssa.Slice); ok {
					subject = sl.X
				}
				c.check(trims(subject), fmt.Sprintf("Format: document test#%d (%s) sees the text without leading blanks", n, s), p.instrPos(site), "the tested text went through a full white-space trim", "the test for "+s+" is made on text from which not all leading white space was removed (line feeds at most): an indented document, or one that starts with a CRLF blank line, is formatted as a fragment — doctype, html, head and body elements and their attributes are dropped")
			}
			if n == 0 {
				undecided("Formatter.Format no longer tests its input for <!DOCTYPE / <html with a prefix test")
			}
		},
	})

	register(&Rule{
		ID: "C11.R14", Props: []string{"C11", "C13"}, Min: 3,
		Doc: "reflect calls whose precondition depends on the *value*, not only on its kind: (a) Value.Convert to a type that is not known to be of a basic kind is guarded by Value.CanConvert — Type.ConvertibleTo answers yes for slice → array (and → pointer to array) whatever the length, and Convert panics when the slice is shorter than the array; (b) Interface() on what MapIndex returned is guarded by IsValid() — a key taken from MapKeys is not found again when it is NaN, and MapIndex then returns the zero Value; (c) Type() on what reflect.ValueOf returned is guarded by a nil test of the operand or IsValid() — ValueOf(nil) is the zero Value (a nil entry in the function map). Each of these panics outside the recovering caller",
		Run: func(p *Prog, c *Ctx) {
			ko := &kindOracle{p: p, memo: map[string]kindSet{}}
			basic := kindsOf("Bool", "Int", "Int8", "Int16", "Int32", "Int64", "Uint", "Uint8", "Uint16", "Uint32", "Uint64", "Uintptr", "Float32", "Float64", "String")
			n := map[string]int{}
			for _, fn := range p.liveFuncs() {
				for _, site := range callsIn(fn) {
					cc := site.Common()
					name := calleeName(cc)
					key := func(what string) string {
						n[shortName(fn)+what]++
						return fmt.Sprintf("%s: %s#%d", shortName(fn), what, n[shortName(fn)+what])
					}
					switch name {
					case "(reflect.Value).Convert":
						ok := hasGuard(site, func(cnd ssa.Value, want bool) bool {
							return want && isCallNamed(cnd, "(reflect.Value).CanConvert") != nil
						})
						if !ok {
							ks := ko.factAt(site, cc.Args[1], 2)
							ok = ks != allKinds && ks&^basic == 0
						}
						c.check(ok, key("Convert to a non-basic type asks CanConvert"), p.instrPos(site), "guarded by Value.CanConvert, or the target is of a basic kind", "Convert is reached under Type.ConvertibleTo only: a slice is `convertible` to an array type whatever its length, and Convert panics when it is shorter than the array (a registered function with an array parameter, called with a short list) — Value.CanConvert looks at the length")
					case "(reflect.Value).Interface":
						recv := reflectRecv(cc)
						fromMapIndex := false
						for _, o := range append(p.origins(recv, OriginOpts{}), recv) {
							if isCallNamed(o, "(reflect.Value).MapIndex") != nil {
								fromMapIndex = true
							}
						}
						if !fromMapIndex {
							continue
						}
						ok := hasGuard(site, func(cnd ssa.Value, want bool) bool {
							cl := isCallNamed(cnd, "(reflect.Value).IsValid")
							return want && cl != nil
						})
						if !ok {
							// the keys are strings (the map's key kind was compared with reflect.String): every key that
							// MapKeys enumerates is found again — only NaN keys are not
							ok = hasGuard(site, func(cnd ssa.Value, want bool) bool {
								op, x, y, rel := relationOnEdge(cnd, want)
								if !rel || op != token.EQL {
									return false
								}
								for _, pair := range [][2]ssa.Value{{x, y}, {y, x}} {
									k, isK := constInt(pair[1])
									if !isK || k != int64(reflect.String) || !isNamed(pair[1].Type(), "reflect", "Kind") {
										continue
									}
									if cl, isCall := pair[0].(*ssa.Call); isCall && strings.HasSuffix(calleeName(&cl.Call), ".Kind") {
										if rc, isRC := recvOf(&cl.Call).(*ssa.Call); isRC && strings.HasSuffix(calleeName(&rc.Call), ".Key") {
											return true
										}
									}
								}
								return false
							})
						}
						c.check(ok, key("Interface() of a MapIndex result asks IsValid"), p.instrPos(site), "guarded by IsValid()", "Interface() is called on what MapIndex returned without an IsValid() test: a NaN key enumerated by MapKeys is never found again, MapIndex returns the zero Value and Interface() panics (v-for over a map[float64]T with a NaN key) — MapRange, or an IsValid() test, avoids it")
					case "(reflect.Value).Type":
						recv := reflectRecv(cc)
						var operand ssa.Value
						for _, o := range append(p.origins(recv, OriginOpts{}), recv) {
							if cl := isCallNamed(o, "reflect.ValueOf"); cl != nil {
								operand = cl.Call.Args[0]
							}
						}
						if operand == nil {
							continue
						}
						if mi, ok := operand.(*ssa.MakeInterface); ok {
							// a concrete value was boxed right here: never the nil interface
							if _, isIface := mi.X.Type().Underlying().(*types.Interface); !isIface {
								continue
							}
						}
						ok := hasGuard(site, func(cnd ssa.Value, want bool) bool {
							if want && isCallNamed(cnd, "(reflect.Value).IsValid") != nil {
								return true
							}
							if b, isB := cnd.(*ssa.BinOp); isB && (isNilConst(b.X) || isNilConst(b.Y)) {
								other := b.X
								if isNilConst(b.X) {
									other = b.Y
								}
								if other == operand || sameValue(other, operand) {
									return (b.Op == token.NEQ && want) || (b.Op == token.EQL && !want)
								}
							}
							return false
						})
						if !ok {
							ks := ko.factAt(site, recv, 2)
							ok = ks != allKinds
						}
						c.check(ok, key("Type() of a ValueOf result is not asked of the zero Value"), p.instrPos(site), "the operand was tested for nil (or the Value for validity / kind)", "Type() is called on reflect.ValueOf(x) where x may be the nil interface: ValueOf(nil) is the zero Value and Type() panics on it (a nil entry in the function map that a template calls)")
					}
				}
			}
		},
	})

	register(&Rule{
		ID: "C11.R15", Props: []string{"C11", "C20"}, Min: 5,
		Doc: "a filesystem that may be nil is not handed to io/fs: every fs.ReadFile / Stat / ReadDir / Glob / Sub / WalkDir call in the module whose filesystem is read from a field of a module object (the engine's template filesystem, the loader's, the Markdown renderer's content filesystem — all of them optional: New() and markdown.New(nil) are documented) is reached only under a test that the field is not nil, in the function itself, in the function it is a closure of, or at every call site of an unexported function. io/fs calls fsys.Open without looking: a nil interface there is a nil-pointer panic, not an error",
		Run: func(p *Prog, c *Ctx) {
			nilTested := func(b *ssa.BasicBlock, fv *types.Var) bool {
				return guardedBy(b, func(cnd ssa.Value, want bool) bool {
					bo, ok := cnd.(*ssa.BinOp)
					if !ok || !(isNilConst(bo.X) || isNilConst(bo.Y)) {
						return false
					}
					other := bo.X
					if isNilConst(bo.X) {
						other = bo.Y
					}
					if f := loadedField(other); f == nil || f != fv {
						// the same field read into a local first
						found := false
						for _, o := range p.origins(other, OriginOpts{}) {
							if f := loadedField(o); f != nil && f == fv {
								found = true
							}
						}
						if !found {
							return false
						}
					}
					return (bo.Op == token.NEQ && want) || (bo.Op == token.EQL && !want)
				})
			}
			var guardedIn func(site ssa.Instruction, fv *types.Var, depth int) bool
			guardedIn = func(site ssa.Instruction, fv *types.Var, depth int) bool {
				if nilTested(site.Block(), fv) {
					return true
				}
				fn := site.Parent()
				if depth > 2 {
					return false
				}
				// a closure: the place where it is made
				if fn.Parent() != nil {
					ok := false
					eachInstr(fn.Parent(), func(in ssa.Instruction) {
						if mc, isMC := in.(*ssa.MakeClosure); isMC && mc.Fn == ssa.Value(fn) && guardedIn(mc, fv, depth+1) {
							ok = true
						}
					})
					if ok {
						return true
					}
				}
				// an unexported function: every call site
				if !token.IsExported(fn.Name()) && fn.Parent() == nil {
					callers := p.Callers(fn)
					if len(callers) == 0 {
						return false
					}
					for _, cs := range callers {
						if !guardedIn(cs, fv, depth+1) {
							return false
						}
					}
					return true
				}
				return false
			}
			n := 0
			for _, fn := range p.liveFuncs() {
				for _, site := range callsIn(fn) {
					nm := calleeName(site.Common())
					switch nm {
					case "io/fs.ReadFile", "io/fs.Stat", "io/fs.ReadDir", "io/fs.Glob", "io/fs.Sub", "io/fs.WalkDir":
					default:
						continue
					}
					var fv *types.Var
					for _, o := range append(p.origins(site.Common().Args[0], OriginOpts{}), site.Common().Args[0]) {
						if f := loadedField(o); f != nil && f.Pkg() != nil && strings.HasPrefix(f.Pkg().Path(), modPath) {
							if _, isIface := f.Type().Underlying().(*types.Interface); isIface {
								fv = f
							}
						}
					}
					if fv == nil {
						continue
					}
					n++
					c.check(guardedIn(site, fv, 0), fmt.Sprintf("%s: %s(%s)#%d only with a filesystem", shortName(fn), strings.TrimPrefix(nm, "io/"), fv.Name(), n), p.instrPos(site), "reached only when the field is not nil", fmt.Sprintf("%s is handed the %s field without a nil test: the filesystem is optional (a renderer or engine made without one is documented), and io/fs calls Open on it — a nil-pointer panic instead of an error", nm, fv.Name()))
				}
			}
		},
	})

	register(&Rule{
		ID: "C04.R12", Props: []string{"C04", "C17"}, Min: 1,
		Doc: "a collection that is passed by pointer is the collection: Stack.ForEach removes pointers from the resolved value (Elem under a Kind()==Ptr test with an IsNil guard, or reflect.Indirect) before it decides from the kind whether and how to iterate — paths follow pointers (`xs[0]` works for &[]int{…}), so a loop over the same value must not find `nothing to iterate` and render the v-else",
		Run: func(p *Prog, c *Ctx) {
			fn := p.MustFn("(*vuego.Stack).ForEach")
			derefs := false
			var at ssa.Instruction
			for _, site := range callsIn(fn) {
				nm := calleeName(site.Common())
				if nm != "(reflect.Value).Elem" && nm != "reflect.Indirect" {
					continue
				}
				for _, o := range append(p.origins(site.Common().Args[0], OriginOpts{}), site.Common().Args[0]) {
					if isCallNamed(o, "reflect.ValueOf") != nil {
						derefs = true
						at = site
					}
				}
			}
			// … and the kind that is switched on is the kind of what came out of it
			iterates := false
			for _, site := range callsIn(fn) {
				nm := calleeName(site.Common())
				if nm == "(reflect.Value).Len" || nm == "(reflect.Value).MapKeys" || nm == "(reflect.Value).MapRange" {
					iterates = true
				}
			}
			if !iterates {
				undecided("Stack.ForEach no longer iterates through reflect")
			}
			pos := p.pos(fn.Pos())
			if at != nil {
				pos = p.instrPos(at)
			}
			c.check(derefs, "ForEach: pointers are followed before the kind decides", pos, "the resolved value is dereferenced", "Stack.ForEach looks at the kind of the resolved value itself: a pointer to a slice, array or map is `nothing to iterate` — the loop renders no instance and its v-else is shown, although the collection has items and paths into it resolve")
		},
	})

	register(&Rule{
		ID: "C03.R16", Props: []string{"C03", "C14"}, Min: 1,
		Doc: "an empty condition is falsy in v-show as it is in v-if: the only way evalVShow returns without having evaluated the condition is that the element carries no v-show attribute (a presence test: HasAttr) — not that the attribute's value is the empty string. `v-show=\"\"` otherwise leaves the element visible while `v-if=\"\"` drops it: one (absent) value, two truth values",
		Run: func(p *Prog, c *Ctx) {
			fn := p.MustFn("(*vuego.Vue).evalVShow")
			evals := map[ssa.Instruction]bool{}
			for _, site := range callsIn(fn) {
				switch calleeName(site.Common()) {
				case "(*vuego.Vue).evalConditionExpr", "(*vuego.Vue).evalCondition", "(*vuego.ExprEvaluator).Eval":
					evals[site] = true
				}
			}
			if len(evals) == 0 {
				undecided("evalVShow no longer evaluates its condition through the shared condition evaluator")
			}
			n := 0
			for _, r := range returnsOf(fn) {
				if mustPassBefore(fn, r, evals) {
					continue
				}
				n++
				bad := ""
				for _, g := range guardsOf(r.Block()) {
					cnd, flip := stripNot(g.If.Cond)
					want := g.Branch != flip
					bo, ok := cnd.(*ssa.BinOp)
					if !ok || (bo.Op != token.EQL && bo.Op != token.NEQ) {
						continue
					}
					var other ssa.Value
					if s, isS := constString(bo.Y); isS && s == "" {
						other = bo.X
					} else if s, isS := constString(bo.X); isS && s == "" {
						other = bo.Y
					}
					if other == nil {
						continue
					}
					if (bo.Op == token.EQL) != want {
						continue
					}
					for _, o := range append(p.origins(other, OriginOpts{}), other) {
						if cl := isCallNamed(o, "helpers.GetAttr"); cl != nil {
							bad = "the element is left as it is when the value of v-show is the empty string"
						}
					}
				}
				c.check(bad == "", fmt.Sprintf("evalVShow: return#%d without evaluation is for an element without v-show", n), p.instrPos(r), "not decided by the emptiness of the attribute's value", bad+": v-show=\"\" shows the element, v-if=\"\" does not render it — the empty condition is truthy in one position and falsy in the other")
			}
			if n == 0 {
				c.ok("evalVShow: every return follows the evaluation", p.pos(fn.Pos()), "no early return")
			}
		},
	})

	register(&Rule{
		ID: "C05.R14", Props: []string{"C05", "C01"}, Min: 1,
		Doc: "bound props keep their type: where the include evaluator decodes prop values that look like JSON (`data='{…}'` written in the template), the decision to decode also looks at how the prop was written — a lookup in a set of the bound names, a test of the attribute key — and not only at the value. A string the *data* supplied through `:text=\"msg\"` that happens to start with `[` or `{` otherwise reaches the component as a list or a map (and a data value such as `{}` is printed as map[])",
		Run: func(p *Prog, c *Ctx) {
			fn := p.MustFn("(*vuego.Vue).evalTemplate")
			n := 0
			for _, site := range callsIn(fn) {
				if calleeName(site.Common()) != "encoding/json.Unmarshal" {
					continue
				}
				// the text that is decoded: an evaluated prop (an element of the map evalAttributes returned), or
				// the attribute's own text?
				evaluated := false
				var walk func(v ssa.Value, d int)
				seen := map[ssa.Value]bool{}
				walk = func(v ssa.Value, d int) {
					if v == nil || seen[v] || d > 8 {
						return
					}
					seen[v] = true
					for _, o := range append(p.origins(v, OriginOpts{}), v) {
						switch x := o.(type) {
						case *ssa.Convert:
							walk(x.X, d+1)
						case *ssa.TypeAssert:
							walk(x.X, d+1)
						case *ssa.Extract:
							walk(x.Tuple, d+1)
						case *ssa.Next:
							walk(x.Iter, d+1)
						case *ssa.Range:
							walk(x.X, d+1)
						case *ssa.Lookup:
							walk(x.X, d+1)
						case *ssa.Call:
							if calleeName(&x.Call) == "(*vuego.Vue).evalAttributes" {
								evaluated = true
							}
						}
					}
				}
				walk(site.Common().Args[0], 0)
				if !evaluated {
					continue
				}
				n++
				looksAtKey := false
				for _, g := range controllingIfs(site) {
					for _, leaf := range condLeaves(g.If.Cond) {
						switch x := leaf.(type) {
						case *ssa.Lookup:
							// a set of names made in this function
							for _, o := range append(p.origins(x.X, OriginOpts{}), x.X) {
								if _, isMk := o.(*ssa.MakeMap); isMk {
									looksAtKey = true
								}
							}
						case *ssa.Extract:
							if lk, ok := x.Tuple.(*ssa.Lookup); ok {
								for _, o := range append(p.origins(lk.X, OriginOpts{}), lk.X) {
									if _, isMk := o.(*ssa.MakeMap); isMk {
										looksAtKey = true
									}
								}
							}
						case *ssa.Call:
							nm := calleeName(&x.Call)
							if (nm == "helpers.HasAttr" || nm == "slices.Contains") && len(x.Call.Args) == 2 {
								// asked about this prop's name, not about a fixed attribute such as `include`
								if _, isConst := x.Call.Args[1].(*ssa.Const); !isConst {
									looksAtKey = true
								}
							}
						}
					}
				}
				c.check(looksAtKey, fmt.Sprintf("evalTemplate: JSON decoding of evaluated props#%d spares bound ones", n), p.instrPos(site), "the decision also depends on how the prop was written", "every prop value that starts with `{` or `[` is decoded as JSON, bound values included: a string supplied by the data through :prop=\"x\" arrives in the component as a list or a map — the bound value does not keep its type, and data is parsed instead of being passed on literally")
			}
			if n == 0 {
				c.ok("evalTemplate: evaluated props are not decoded", p.pos(fn.Pos()), "no JSON decoding of what evalAttributes returned")
			}
		},
	})

	register(&Rule{
		ID: "C02.R14", Props: []string{"C02", "C20"}, Min: 3,
		Doc: "evaluated content is not trimmed as if it were source: wherever the engine stores the content carrier of v-html / v-text (an attribute whose key is one of the two carrier names), the value does not go through strings.TrimSpace, strings.Fields or a unicode.IsSpace trim — those remove U+00A0 (&nbsp;), U+2003 and the other Unicode spaces, which are text: a paragraph that consists of a no-break space, or ends in one, loses it",
		Run: func(p *Prog, c *Ctx) {
			n := 0
			for _, name := range []string{"(*vuego.Vue).evalAttributes", "(*vuego.Vue).evalVHtml", "(*vuego.Vue).evalVText"} {
				fn := p.MustFn(name)
				eachInstr(fn, func(in ssa.Instruction) {
					st, ok := in.(*ssa.Store)
					if !ok {
						return
					}
					fa, ok := st.Addr.(*ssa.FieldAddr)
					if !ok || !isNamed(fa.X.Type(), "golang.org/x/net/html", "Attribute") || fieldName(fa.X.Type(), fa.Field) != "Val" {
						return
					}
					// the key stored into the same attribute value
					carrier := false
					if fa.X.Referrers() != nil {
						for _, r := range *fa.X.Referrers() {
							fk, ok := r.(*ssa.FieldAddr)
							if !ok || fieldName(fk.X.Type(), fk.Field) != "Key" || fk.Referrers() == nil {
								continue
							}
							for _, rr := range *fk.Referrers() {
								ks, ok := rr.(*ssa.Store)
								if !ok || ks.Addr != ssa.Value(fk) {
									continue
								}
								if s, isS := constString(ks.Val); isS && (s == carrierHTML || s == carrierText) {
									carrier = true
								}
								if enteredOnlyUnder(ks.Block(), func(cnd ssa.Value, want bool) bool {
									// key == carrier, or key ∈ a constant table of carriers (slices.Contains, a lookup table)
									x, set, member, ok := inSetOnEdge(cnd, want)
									if !ok || !member || len(set) == 0 || !(x == ks.Val || sameValue(x, ks.Val)) {
										return false
									}
									for _, s := range set {
										if s != carrierHTML && s != carrierText {
											return false
										}
									}
									return true
								}) {
									carrier = true
								}
							}
						}
					}
					if !carrier {
						return
					}
					n++
					bad := ""
					for _, o := range append(p.origins(st.Val, OriginOpts{}), st.Val) {
						cl, ok := o.(*ssa.Call)
						if !ok {
							continue
						}
						switch nm := calleeName(&cl.Call); nm {
						case "strings.TrimSpace", "strings.Fields", "bytes.TrimSpace":
							bad = nm
						case "strings.TrimFunc", "strings.TrimLeftFunc", "strings.TrimRightFunc":
							if f := funcValue(cl.Call.Args[1]); f != nil && f.String() == "unicode.IsSpace" {
								bad = nm + "(unicode.IsSpace)"
							}
						}
					}
					c.check(bad == "", fmt.Sprintf("%s: content carrier#%d keeps Unicode spaces", strings.TrimPrefix(name, "(*vuego.Vue)."), n), p.instrPos(st), "not trimmed with a Unicode-space trim", "the evaluated content of v-html / v-text is stored through "+bad+": a no-break space (or any other Unicode space) at its start or end is removed although it is text — `&nbsp;` as the whole content of a Markdown paragraph gives an empty <p>")
				})
			}
			if n == 0 {
				undecided("no store of a v-html / v-text content carrier found")
			}
		},
	})

	register(&Rule{
		ID: "C14.R16", Props: []string{"C14", "C13"}, Min: 2,
		Doc: "the hand-written scanners of attribute values know the brackets they may meet: the splitter of :class / :style object items compares the characters it scans with `(`, `)`, `[` and `]` as well as with the braces (a comma inside an array literal or an argument list belongs to the item: `{c: x in ['a', 'b']}`), and the splitter of style declarations does not cut the value with a plain strings.Split at `;` but scans it and knows `(` and `)` (`url(data:image/png;base64,…)` is one declaration). A scanner that never looks for a character cannot treat it specially",
		Run: func(p *Prog, c *Ctx) {
			items := p.MustFn("(*vuego.Vue).splitObjectItems")
			have := comparedChars(items)
			missing := ""
			for _, ch := range "()[]" {
				if !have[ch] {
					missing += string(ch)
				}
			}
			c.check(missing == "", "splitObjectItems: knows parentheses and square brackets", p.pos(items.Pos()), "compares the scanned character with ( ) [ ]", fmt.Sprintf("the item splitter never compares a character with %q: a comma inside an array literal or an argument list ends the item — `{c: x in ['a', 'b'], d: wide}` loses c", missing))
			decls := p.MustFn("vuego.parseStyleDecls")
			var split ssa.Instruction
			for _, site := range callsIn(decls) {
				nm := calleeName(site.Common())
				if nm == "strings.Split" || nm == "strings.SplitN" || nm == "strings.FieldsFunc" || nm == "strings.SplitSeq" {
					if len(site.Common().Args) >= 2 {
						if sep, ok := constString(site.Common().Args[1]); ok && sep == ";" {
							split = site
						}
					}
				}
			}
			haveD := comparedChars(decls)
			pos := p.pos(decls.Pos())
			if split != nil {
				pos = p.instrPos(split)
			}
			c.check(split == nil && haveD['('] && haveD[')'] && haveD[';'], "parseStyleDecls: declarations are not cut inside parentheses", pos, "scans the value and knows ( ) ;", "the style value is cut at every `;` (strings.Split, or a scan that never looks for parentheses): `background:url(data:image/png;base64,AAAA)` is split in two when a binding or v-show makes the engine re-write the attribute, and the second half is lost")
		},
	})

	register(&Rule{
		ID: "C03.R17", Props: []string{"C03", "C14"}, Min: 1,
		Doc: "nil is falsy whatever type it wears: helpers.IsTruthy asks IsNil of a reflected pointer — a nil *T that arrives in an interface is not the untyped nil its `case nil` catches; answered `true` it renders the v-if branch and writes title=\"<nil>\"",
		Run: func(p *Prog, c *Ctx) {
			fn := p.MustFn("helpers.IsTruthy")
			asks := false
			var at ssa.Instruction
			for _, site := range callsIn(fn) {
				if calleeName(site.Common()) == "(reflect.Value).IsNil" {
					asks = true
					at = site
				}
			}
			pos := p.pos(fn.Pos())
			if at != nil {
				pos = p.instrPos(at)
			}
			c.check(asks, "IsTruthy: a nil pointer is falsy", pos, "IsNil is asked of the reflected value", "IsTruthy never asks a reflected value whether it is nil: every pointer is truthy, the nil ones included — `v-if=\"ptr\"` renders its branch and `:title=\"ptr\"` writes <nil> for a nil *T, while the untyped nil is falsy")
		},
	})

	register(&Rule{
		ID: "C17.R17", Props: []string{"C17"}, Min: 1,
		Doc: "white space around a path is not part of it, dotted or not: every name Stack.Resolve hands to Lookup comes from text that went through strings.TrimSpace (the path splitter trims each segment; the fast path for plain names must do the same) — otherwise Resolve(\" xs[1] \") finds its element and Resolve(\" n \") does not find n",
		Run: func(p *Prog, c *Ctx) {
			fn := p.MustFn("(*vuego.Stack).Resolve")
			n := 0
			for _, site := range callsIn(fn) {
				if !isStackCall(site.Common(), "Lookup") {
					continue
				}
				n++
				arg := site.Common().Args[1]
				trimmed := false
				for _, o := range append(p.origins(arg, OriginOpts{}), arg) {
					switch x := o.(type) {
					case *ssa.Call:
						nm := calleeName(&x.Call)
						if nm == "strings.TrimSpace" || nm == "helpers.TrimHTMLSpace" || nm == "vuego.getCachedPath" || nm == "vuego.splitPathImpl" {
							trimmed = true
						}
					case *ssa.UnOp:
						// an element of the split path: the splitter trims its segments
						if ia, ok := x.X.(*ssa.IndexAddr); ok {
							for _, oo := range append(p.origins(ia.X, OriginOpts{}), ia.X) {
								if cl, ok := oo.(*ssa.Call); ok && (calleeName(&cl.Call) == "vuego.getCachedPath" || calleeName(&cl.Call) == "vuego.splitPathImpl") {
									trimmed = true
								}
							}
						}
					}
				}
				c.check(trimmed, fmt.Sprintf("Resolve: Lookup#%d gets a trimmed name", n), p.instrPos(site), "the name went through TrimSpace or the path splitter", "Resolve hands the text to Lookup as it was written: white space around a plain name makes it unknown, while the same white space around a dotted or bracketed path is ignored")
			}
			if n == 0 {
				undecided("Stack.Resolve no longer calls Lookup")
			}
		},
	})

	register(&Rule{
		ID: "C19.R18", Props: []string{"C19"}, Min: 3,
		Doc: "what holds for an element holds for it inside <pre> too: (a) where the formatter walks the children of a <pre> / <textarea> / <listing> itself (renderPreContent), text is escaped only under a test that its parent is not a raw-text element — the parser does not decode the text of a <script>, <style> or <xmp> nested in the block, and escaping it adds one level of `&amp;` per pass; (b) the same walk writes the compensating newline for a nested <pre> / <textarea> / <listing> whose content begins with one; (c) the test that takes a body for a full document because it begins with `<html` also looks at the character after the name (`>`, `/`, white space): <html-viewer> is another element",
		Run: func(p *Prog, c *Ctx) {
			pre := p.MustFn("(*formatter.Formatter).renderPreContent")
			n := 0
			for _, site := range callsIn(pre) {
				if calleeName(site.Common()) != "formatter.escapeText" {
					continue
				}
				n++
				guarded := false
				for _, g := range controllingIfs(site) {
					for _, leaf := range condLeaves(g.If.Cond) {
						if cl, ok := leaf.(*ssa.Call); ok && calleeName(&cl.Call) == "formatter.isRawTextElement" {
							guarded = true
						}
					}
				}
				c.check(guarded, fmt.Sprintf("renderPreContent: escapeText#%d spares raw text", n), p.instrPos(site), "under a raw-text test of the parent", "inside <pre> every text node is escaped, also the text of a nested <script> / <style> / <xmp>, which the parser hands over undecoded: `a<b` becomes `a&lt;b`, then `a&amp;lt;b` on the next pass")
			}
			if n == 0 {
				undecided("renderPreContent no longer escapes text through escapeText")
			}
			nl := false
			var at ssa.Instruction
			for _, site := range callsIn(pre) {
				if calleeName(site.Common()) == "strings.HasPrefix" && len(site.Common().Args) == 2 {
					if s, ok := constString(site.Common().Args[1]); ok && s == "\n" {
						nl = true
						at = site
					}
				}
			}
			pos := p.pos(pre.Pos())
			if at != nil {
				pos = p.instrPos(at)
			}
			c.check(nl, "renderPreContent: a nested <pre>/<textarea> keeps its leading newline", pos, "content that begins with a newline is tested for", "the walk inside <pre> writes a nested <textarea>, <pre> or <listing> without the extra newline that compensates the one the parser drops after their start tag: `<pre><textarea>\\n\\nfoo` loses one leading newline per pass")
			format := p.MustFn("(*formatter.Formatter).Format")
			have := comparedChars(format)
			c.check(have['>'] && have['/'] && have[' '], "Format: `<html` is a tag name only when the name ends there", p.pos(format.Pos()), "the character after the name is compared with > / and white space", "the full-document test is a bare prefix test on `<html`: a fragment that starts with <html-viewer> or <htmlx-el> is parsed as a document and comes back wrapped in html, head and body elements")
		},
	})
}

func init() {
	register(&Rule{
		ID: "C16.R12", Props: []string{"C16", "C14", "C01"}, Min: 1,
		Doc: "children are skipped only when something replaced them: in evaluate's element path the decision not to evaluate an element's children is made on the content carrier the v-html / v-text handler stored (the clone carries data-v-html-content / data-v-text-content), not on the mere presence of the directive — when the directive's value does not resolve, the handlers store nothing and the children are the element's fallback: unevaluated they are written as template source ({{ }} literal, :attr and v-if ignored) and a v-once child is emitted at every iteration",
		Run: func(p *Prog, c *Ctx) {
			fn := p.MustFn("(*vuego.Vue).evaluate")
			n := 0
			for _, site := range callsIn(fn) {
				if calleeName(site.Common()) != "(*vuego.Vue).evaluateChildren" {
					continue
				}
				onDirective, onCarrier := false, false
				for _, g := range controllingIfs(site) {
					for _, leaf := range condLeaves(g.If.Cond) {
						var walk func(v ssa.Value, d int)
						walk = func(v ssa.Value, d int) {
							if v == nil || d > 4 {
								return
							}
							switch x := v.(type) {
							case *ssa.Call:
								nm := calleeName(&x.Call)
								if (nm == "helpers.GetAttr" || nm == "helpers.HasAttr") && len(x.Call.Args) == 2 {
									if s, ok := constString(x.Call.Args[1]); ok {
										if s == "v-html" || s == "v-text" {
											onDirective = true
										}
										if s == carrierHTML || s == carrierText {
											onCarrier = true
										}
									}
								}
							case *ssa.BinOp:
								walk(x.X, d+1)
								walk(x.Y, d+1)
							case *ssa.UnOp:
								walk(x.X, d+1)
							case *ssa.Phi:
								for _, e := range x.Edges {
									walk(e, d+1)
								}
							}
						}
						walk(leaf, 0)
					}
				}
				if !onDirective && !onCarrier {
					continue // (a call for another construct: templates, slots)
				}
				n++
				c.check(onCarrier, fmt.Sprintf("evaluate: children#%d are skipped only when a carrier replaced them", n), p.instrPos(site), "decided on the content carrier", "whether an element's children are evaluated is decided by the presence of v-html / v-text alone: when the value does not resolve nothing replaces the children, and they reach the output unevaluated — `<div v-html=\"missing\"><p v-if=\"off\">{{ x }}</p></div>` writes the <p> with its {{ x }}, and a v-once child is emitted at every loop iteration")
			}
			if n == 0 {
				undecided("evaluate no longer decides about the children of a v-html / v-text element next to its call of evaluateChildren")
			}
		},
	})

	register(&Rule{
		ID: "C08.R14", Props: []string{"C08", "C04", "C13"}, Min: 1,
		Doc: "every map with string keys supplies variables: toMapData, which turns the data of a render call (and of Fill) into the root scope, enumerates the entries of a map of any type with string keys (a reflect MapRange / MapKeys walk under a Kind()==Map test) — not only of the exact type map[string]any. A map[string]string or a named map type (type H map[string]any, the shape of gin.H) otherwise gives an empty root scope: its values lose to theme.yml and data/*.yml, and expressions evaluated over the merged environment cannot see them",
		Run: func(p *Prog, c *Ctx) {
			fn := p.MustFn("vuego.toMapData")
			walks := false
			var at ssa.Instruction
			for f := range p.Cone(fn) {
				if !inModule(f) {
					continue
				}
				// the struct converter walks maps it finds inside structs: that is not the root data itself
				if n := shortName(f); strings.Contains(n, "structToMap") || strings.Contains(n, "StructToMap") {
					continue
				}
				for _, site := range callsIn(f) {
					nm := calleeName(site.Common())
					if nm == "(reflect.Value).MapRange" || nm == "(reflect.Value).MapKeys" {
						walks = true
						at = site
					}
				}
			}
			pos := p.pos(fn.Pos())
			if at != nil {
				pos = p.instrPos(at)
			}
			c.check(walks, "toMapData: maps of every string-keyed type are enumerated", pos, "a reflect walk over the map's entries", "toMapData recognises the exact type map[string]any (and structs) only: data of another map type — map[string]string, a named map such as gin.H — yields an empty root scope; Fill(map[string]string{\"title\": …}) loses to theme.yml, and v-if / :attr expressions inside loops do not see the root variables")
		},
	})
}

func init() {
	register(&Rule{
		ID: "C04.R13", Props: []string{"C04"}, Min: 1,
		Doc: "the loop variable ends at the keyword, not inside a name: parseFor separates variable(s) and collection at `in` with white space on both sides — a literal separator ` in ` handed to strings.Cut / SplitN / Index / Split, or a regular expression in whose pattern (read from the source as a constant and parsed with regexp/syntax, never run) the literal `in` is preceded and followed by at least one mandatory white-space character. `\\s*in` lets the keyword match inside `admin in admins`: variable `adm`, collection `in admins`, which does not resolve — the loop silently renders nothing and its v-else is shown",
		Run: func(p *Prog, c *Ctx) {
			fn := p.MustFn("vuego.parseFor")
			n := 0
			for _, site := range callsIn(fn) {
				nm := calleeName(site.Common())
				args := site.Common().Args
				switch {
				case nm == "strings.Cut" || nm == "strings.SplitN" || nm == "strings.Split" || nm == "strings.Index" || nm == "strings.LastIndex" || nm == "strings.SplitSeq":
					if len(args) < 2 {
						continue
					}
					sep, ok := constString(args[1])
					if !ok || !strings.Contains(sep, "in") {
						continue
					}
					n++
					okSep := len(sep) >= 4 && isSpaceByte(sep[0]) && isSpaceByte(sep[len(sep)-1]) && strings.TrimSpace(sep) == "in"
					c.check(okSep, fmt.Sprintf("parseFor: separator#%d is the keyword between white space", n), p.instrPos(site), fmt.Sprintf("separator %q", sep), fmt.Sprintf("the v-for expression is cut at %q: without white space on both sides the keyword also matches inside a name (`admin in admins`, `x in bins`)", sep))
				case strings.HasPrefix(nm, "(*regexp.Regexp)."):
					pat, ok := regexpPattern(p, args[0])
					n++
					if !ok {
						undecided("parseFor uses a regular expression whose pattern is not a constant the analysis can read")
					}
					why := keywordDelimited(pat, "in")
					c.check(why == "", fmt.Sprintf("parseFor: pattern#%d delimits the keyword by mandatory white space", n), p.instrPos(site), fmt.Sprintf("pattern %q", pat), fmt.Sprintf("in the pattern %q %s: the keyword can match inside a name — for `admin in admins` the variable becomes `adm` and the collection `in admins`, which does not resolve: no instance is rendered and the v-else is shown", pat, why))
				}
			}
			if n == 0 {
				undecided("parseFor separates variable and collection in a way this rule does not recognise")
			}
		},
	})
}

func isSpaceByte(b byte) bool { return b == ' ' || b == '\t' || b == '\n' || b == '\r' }

// regexpPattern: the constant pattern of the *regexp.Regexp value v (a package-level variable initialised with
// regexp.MustCompile(const), or a MustCompile / Compile call in the function itself).
func regexpPattern(p *Prog, v ssa.Value) (string, bool) {
	for _, o := range append(p.origins(v, OriginOpts{}), v) {
		switch x := o.(type) {
		case *ssa.Call:
			if nm := calleeName(&x.Call); nm == "regexp.MustCompile" || nm == "regexp.Compile" || nm == "regexp.MustCompilePOSIX" {
				if s, ok := constString(x.Call.Args[0]); ok {
					return s, true
				}
			}
		case *ssa.Extract:
			if cl, ok := x.Tuple.(*ssa.Call); ok && calleeName(&cl.Call) == "regexp.Compile" {
				if s, ok := constString(cl.Call.Args[0]); ok {
					return s, true
				}
			}
		case *ssa.UnOp:
			g, ok := x.X.(*ssa.Global)
			if !ok {
				continue
			}
			init := g.Pkg.Func("init")
			if init == nil {
				continue
			}
			found, pat := 0, ""
			eachInstr(init, func(in ssa.Instruction) {
				if st, ok := in.(*ssa.Store); ok && st.Addr == ssa.Value(g) {
					if cl, ok := st.Val.(*ssa.Call); ok && strings.HasPrefix(calleeName(&cl.Call), "regexp.MustCompile") {
						if s, ok := constString(cl.Call.Args[0]); ok {
							found++
							pat = s
						}
					}
				}
			})
			if found == 1 {
				return pat, true
			}
		}
	}
	return "", false
}

// keywordDelimited reads a pattern's syntax tree (it is not run): every occurrence of the literal keyword must have a
// mandatory white-space element directly before and after it within its concatenation. It returns what is missing.
func keywordDelimited(pattern, kw string) string {
	re, err := syntax.Parse(pattern, syntax.Perl)
	if err != nil {
		return "(the pattern does not parse: " + err.Error() + ")"
	}
	mandatorySpace := func(r *syntax.Regexp) bool {
		isSpaceClass := func(x *syntax.Regexp) bool {
			switch x.Op {
			case syntax.OpLiteral:
				for _, ch := range x.Rune {
					if ch != ' ' && ch != '\t' && ch != '\n' && ch != '\r' {
						return false
					}
				}
				return len(x.Rune) > 0
			case syntax.OpCharClass:
				// \s = [\t\n\f\r ]: every range inside white space
				for i := 0; i+1 < len(x.Rune); i += 2 {
					for ch := x.Rune[i]; ch <= x.Rune[i+1]; ch++ {
						if ch != ' ' && ch != '\t' && ch != '\n' && ch != '\r' && ch != '\f' && ch != '\v' {
							return false
						}
					}
				}
				return len(x.Rune) > 0
			}
			return false
		}
		switch r.Op {
		case syntax.OpPlus:
			return isSpaceClass(r.Sub[0])
		case syntax.OpRepeat:
			return r.Min >= 1 && isSpaceClass(r.Sub[0])
		}
		return isSpaceClass(r)
	}
	found := false
	why := ""
	var walk func(r *syntax.Regexp)
	walk = func(r *syntax.Regexp) {
		if r.Op == syntax.OpConcat {
			for i, sub := range r.Sub {
				if sub.Op != syntax.OpLiteral {
					continue
				}
				lit := string(sub.Rune)
				idx := strings.Index(lit, kw)
				if idx < 0 {
					continue
				}
				found = true
				before := idx > 0 && isSpaceByte(lit[idx-1])
				after := idx+len(kw) < len(lit) && isSpaceByte(lit[idx+len(kw)])
				if !before && idx == 0 && i > 0 && mandatorySpace(r.Sub[i-1]) {
					before = true
				}
				if !after && idx+len(kw) == len(lit) && i+1 < len(r.Sub) && mandatorySpace(r.Sub[i+1]) {
					after = true
				}
				if !before {
					why = "the keyword `" + kw + "` is not preceded by mandatory white space"
				} else if !after {
					why = "the keyword `" + kw + "` is not followed by mandatory white space"
				}
			}
		}
		for _, sub := range r.Sub {
			walk(sub)
		}
	}
	walk(re)
	if !found {
		return "the keyword `" + kw + "` does not occur as a literal"
	}
	return why
}

func init() {
	register(&Rule{
		ID: "C10.R10", Props: []string{"C10", "C13"}, Min: 3,
		Doc: "no second, unordered way to enumerate a map: the builtins of the expression language that walk a map — keys, values, toPairs — are built from reflect MapKeys() without sorting; the engine replaces each of them (an expr.Function of that name among the options it compiles every expression with, as it does for string()) or disables it. Left alone, `keys(m)[0] == 'a'` in a v-if and `join(keys(m), \",\")` in {{ }} change from one render of the same inputs to the next. (That each replacement sorts what MapKeys returned is C10.R1's obligation.)",
		Run: func(p *Prog, c *Ctx) {
			fn := p.MustFn("(*vuego.ExprEvaluator).getProgram")
			names := map[string]ssa.Instruction{}
			nameOfOption := func(v ssa.Value) (string, bool) {
				var fromCall func(cl *ssa.Call) (string, bool)
				fromCall = func(cl *ssa.Call) (string, bool) {
					nm := calleeName(&cl.Call)
					if (strings.HasSuffix(nm, "expr.Function") || strings.HasSuffix(nm, "expr.DisableBuiltin") || inModule(cl.Call.StaticCallee())) && len(cl.Call.Args) > 0 {
						if s, ok := constString(cl.Call.Args[0]); ok {
							return s, true
						}
					}
					return "", false
				}
				for _, o := range append(p.origins(v, OriginOpts{}), v) {
					switch x := o.(type) {
					case *ssa.Call:
						if s, ok := fromCall(x); ok {
							return s, true
						}
					case *ssa.UnOp:
						g, ok := x.X.(*ssa.Global)
						if !ok {
							continue
						}
						init := g.Pkg.Func("init")
						if init == nil {
							continue
						}
						name, found := "", false
						eachInstr(init, func(in ssa.Instruction) {
							if st, ok := in.(*ssa.Store); ok && st.Addr == ssa.Value(g) {
								if cl, ok := st.Val.(*ssa.Call); ok {
									if s, ok := fromCall(cl); ok {
										name, found = s, true
									}
								}
							}
						})
						if found {
							return name, true
						}
					}
				}
				return "", false
			}
			compiles := 0
			for _, site := range callsIn(fn) {
				if !strings.HasSuffix(calleeName(site.Common()), "expr.Compile") {
					continue
				}
				compiles++
				// the options: elements stored into the variadic backing array
				eachInstr(fn, func(in ssa.Instruction) {
					st, ok := in.(*ssa.Store)
					if !ok {
						return
					}
					if _, isEl := st.Addr.(*ssa.IndexAddr); !isEl {
						return
					}
					if s, ok := nameOfOption(st.Val); ok {
						names[s] = st
					}
				})
			}
			if compiles == 0 {
				undecided("getProgram no longer compiles expressions with expr.Compile")
			}
			for _, want := range []string{"keys", "values", "toPairs"} {
				at, ok := names[want]
				pos := p.pos(fn.Pos())
				if ok {
					pos = p.instrPos(at)
				}
				c.check(ok, "getProgram: the evaluator's "+want+"() is replaced or disabled", pos, "an option of that name is handed to expr.Compile", "expressions are compiled with the expression library's own "+want+"(): it enumerates a map in Go's random iteration order, so `"+want+"(m)` gives a different list — and a v-if over it a different branch — from one render of the same template and data to the next")
			}
		},
	})
}

func init() {
	register(&Rule{
		ID: "C10.R11", Props: []string{"C10", "C08", "C09"}, Min: 1,
		Doc: "the engine's configuration is read-only once it is loaded: the values held in the engine's config map (theme.yml, data/*.yml, WithData: Vue.initialData) are followed from every read of that map outside the loader that fills it — into the maps they are copied to, out of those again by lookup or range, through type assertions and into the functions they are passed to — and nothing writes through them. A merge that descends into a nested section and assigns there (`overriding theme.header.title keeps the rest of theme.header`) writes one request's values into the map every later render reads",
		Run: func(p *Prog, c *Ctx) {
			t := newROTaint(p)
			// the loader(s): functions that assign entries of the config map itself
			loader := map[*ssa.Function]bool{}
			for _, fn := range p.liveFuncs() {
				eachInstr(fn, func(in ssa.Instruction) {
					if mu, ok := in.(*ssa.MapUpdate); ok {
						if f := loadedField(mu.Map); f != nil && fieldIs(f, "initialData") {
							loader[rootFunc(fn)] = true
						}
					}
				})
			}
			seeds := 0
			for _, fn := range p.liveFuncs() {
				if loader[rootFunc(fn)] {
					continue
				}
				eachInstr(fn, func(in ssa.Instruction) {
					ld, ok := in.(*ssa.UnOp)
					if !ok || ld.Op != token.MUL {
						return
					}
					if f := loadedField(ld); f != nil && fieldIs(f, "initialData") {
						if _, isMap := ld.Type().Underlying().(*types.Map); isMap {
							seeds++
							t.seed(ld, "the engine's configuration map read at "+p.instrPos(ld))
						}
					}
				})
			}
			if seeds == 0 {
				undecided("nothing reads the engine's configuration map (Vue.initialData)")
			}
			t.run()
			c.note("%d reads of the configuration map, %d values followed, %d uses examined", seeds, len(t.why), t.uses)
			c.ok("configuration values followed", "-", fmt.Sprintf("%d reads of the engine's configuration map followed to all uses", seeds))
			for _, vi := range t.viol {
				c.fail(fmt.Sprintf("%s: %s through a configuration value", shortName(vi.at.Parent()), vi.what), p.instrPos(vi.at), vi.what+" on a value that belongs to the engine's configuration: "+shortWhy(vi.why)+" — what one request fills in stays in theme.yml's section for every later render of the engine (and two requests race on it)")
			}
		},
	})
}

// comparedChars: the characters a function (closures and inlined helpers included) compares something with —
// operands of == / != / switch cases, and the members of constant sets handed to strings.ContainsRune / IndexByte /
// ContainsAny / IndexAny / IndexRune.
func comparedChars(fn *ssa.Function) map[rune]bool {
	out := map[rune]bool{}
	// the function itself, its closures, and the module helpers it calls that work on text alone (every
	// parameter a string, byte, rune or byte slice): hasTagPrefixFold(s, tag), splitStyleDecls(style)
	fns := []*ssa.Function{fn}
	seenFn := map[*ssa.Function]bool{fn: true}
	textOnly := func(f *ssa.Function) bool {
		if len(f.Params) == 0 {
			return false
		}
		for _, prm := range f.Params {
			switch u := prm.Type().Underlying().(type) {
			case *types.Basic:
			case *types.Slice:
				if b, ok := u.Elem().Underlying().(*types.Basic); !ok || b.Kind() != types.Byte {
					return false
				}
			default:
				return false
			}
		}
		return true
	}
	for i := 0; i < len(fns) && i < 12; i++ {
		walkFuncTree(fns[i], func(f *ssa.Function) {
			for _, site := range callsIn(f) {
				if callee := site.Common().StaticCallee(); callee != nil && inModule(callee) && len(callee.Blocks) > 0 && !seenFn[callee] && textOnly(callee) {
					seenFn[callee] = true
					fns = append(fns, callee)
				}
			}
		})
	}
	for _, root := range fns {
		comparedCharsIn(root, out)
	}
	return out
}

func comparedCharsIn(fn *ssa.Function, out map[rune]bool) {
	walkFuncTree(fn, func(f *ssa.Function) {
		eachInstr(f, func(in ssa.Instruction) {
			switch x := in.(type) {
			case *ssa.BinOp:
				if x.Op != token.EQL && x.Op != token.NEQ {
					return
				}
				for _, v := range []ssa.Value{x.X, x.Y} {
					if k, ok := constInt(v); ok && k > 0 && k < 0x110000 {
						out[rune(k)] = true
					}
					if s, ok := constString(v); ok && len([]rune(s)) == 1 {
						out[[]rune(s)[0]] = true
					}
				}
			case *ssa.IndexAddr: // a lookup in a package-level table of characters: var ends = [256]bool{' ': true, …}
				if g, ok := x.X.(*ssa.Global); ok {
					for _, r := range globalCharSet(g) {
						out[r] = true
					}
				}
			case *ssa.Lookup:
				if ld, ok := x.X.(*ssa.UnOp); ok && ld.Op == token.MUL {
					if g, ok := ld.X.(*ssa.Global); ok {
						for _, r := range globalCharSet(g) {
							out[r] = true
						}
					}
				}
			case ssa.CallInstruction:
				switch calleeName(x.Common()) {
				case "strings.ContainsRune", "strings.IndexByte", "strings.IndexRune", "strings.ContainsAny", "strings.IndexAny", "bytes.IndexByte", "bytes.ContainsRune", "bytes.ContainsAny":
					for _, a := range x.Common().Args {
						if s, ok := constString(a); ok {
							for _, r := range s {
								out[r] = true
							}
						}
						if k, ok := constInt(a); ok && k > 0 && k < 0x110000 {
							out[rune(k)] = true
						}
					}
				}
			}
		})
	})
}

// globalCharSet: the characters a package-level table holds as `true` — an array of bool indexed by byte, or a
// map[byte|rune]bool — when the table is filled by its declaration alone (constant indexes, in the package's init) and
// written nowhere else.
func globalCharSet(g *ssa.Global) []rune {
	pt, ok := g.Type().Underlying().(*types.Pointer)
	if !ok || theProg == nil {
		return nil
	}
	isBool := func(t types.Type) bool {
		b, ok := t.Underlying().(*types.Basic)
		return ok && b.Kind() == types.Bool
	}
	switch u := pt.Elem().Underlying().(type) {
	case *types.Array:
		if !isBool(u.Elem()) {
			return nil
		}
	case *types.Map:
		kb, ok := u.Key().Underlying().(*types.Basic)
		if !ok || kb.Info()&types.IsInteger == 0 || !isBool(u.Elem()) {
			return nil
		}
	default:
		return nil
	}
	var out []rune
	clean := true
	isTrue := func(v ssa.Value) bool {
		c, ok := v.(*ssa.Const)
		return ok && c.Value != nil && c.Value.String() == "true"
	}
	for _, fn := range theProg.FuncsAndInits() {
		isInit := fn.Name() == "init" && fn.Pkg == g.Pkg
		eachInstr(fn, func(in ssa.Instruction) {
			switch x := in.(type) {
			case *ssa.Store:
				if ia, ok := x.Addr.(*ssa.IndexAddr); ok && ia.X == ssa.Value(g) {
					k, isC := constInt(ia.Index)
					if !isInit || !isC {
						clean = false
					} else if isTrue(x.Val) && k > 0 {
						out = append(out, rune(k))
					}
				}
				if x.Addr == ssa.Value(g) {
					if !isInit {
						clean = false
					} else if ld, ok := x.Val.(*ssa.UnOp); ok && ld.Op == token.MUL {
						// an array literal is built in a local and copied into the variable
						if al, ok := ld.X.(*ssa.Alloc); ok && al.Referrers() != nil {
							for _, r := range *al.Referrers() {
								ia, ok := r.(*ssa.IndexAddr)
								if !ok || ia.Referrers() == nil {
									continue
								}
								k, isC := constInt(ia.Index)
								for _, r2 := range *ia.Referrers() {
									if st, ok := r2.(*ssa.Store); ok && st.Addr == ssa.Value(ia) {
										if !isC {
											clean = false
										} else if isTrue(st.Val) && k > 0 {
											out = append(out, rune(k))
										}
									}
								}
							}
						}
					} else if mk, ok := x.Val.(*ssa.MakeMap); ok && mk.Referrers() != nil {
						for _, r := range *mk.Referrers() {
							if mu, ok := r.(*ssa.MapUpdate); ok {
								if k, isC := constInt(mu.Key); isC && isTrue(mu.Value) && k > 0 {
									out = append(out, rune(k))
								} else if !isC {
									clean = false
								}
							}
						}
					}
				}
			case *ssa.MapUpdate:
				if l, ok := x.Map.(*ssa.UnOp); ok && l.X == ssa.Value(g) {
					clean = false
				}
			}
		})
	}
	if !clean {
		return nil
	}
	return out
}
