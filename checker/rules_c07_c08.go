package main

import (
	"fmt"
	"go/token"
	"go/types"
	"strings"

	"golang.org/x/tools/go/ssa"
)

func init() {
	register(&Rule{
		ID: "C07.R1", Props: []string{"C07", "C11"}, Min: 3,
		Doc: "the layout loop is bounded: the loop that loads and renders the next link carries an integer counter that starts at a constant, is incremented by a positive constant on every iteration, and is compared against a constant bound in a guard that dominates the render call and whose exceeding edge returns a non-nil error",
		Run: func(p *Prog, c *Ctx) {
			fn := p.MustFn("(*vuego.template).layout")
			var render ssa.Instruction
			for _, site := range p.callsToRole(fn, "(*vuego.template).renderWithoutLayout") {
				render = site
			}
			if render == nil {
				undecided("layout: no renderWithoutLayout call")
			}
			h := loopHeaderOf(render.Block())
			c.check(h != nil, "layout: render call is inside the chain loop", p.instrPos(render), "loop found", "the layout renderer is not in a loop: chains are not followed")
			if h == nil {
				return
			}
			var guard *ssa.If
			var counter ssa.Value
			var exitBlock *ssa.BasicBlock
			isLimit := func(v ssa.Value) bool {
				for _, o := range p.origins(v, OriginOpts{}) {
					if _, ok := constInt(o); ok {
						return true
					}
				}
				return false
			}
			eachInstr(fn, func(in ssa.Instruction) {
				ifi, ok := in.(*ssa.If)
				if !ok || !dominates(ifi, render) {
					return
				}
				b, ok := ifi.Cond.(*ssa.BinOp)
				if !ok {
					return
				}
				// the successor that leads on to the render call, and the one that leaves
				blk := ifi.Block()
				stay := -1
				for k, s := range blk.Succs {
					if s == render.Block() || s.Dominates(render.Block()) {
						stay = k
					}
				}
				if stay < 0 || blk.Succs[0] == blk.Succs[1] {
					return
				}
				exit := blk.Succs[1-stay]
				// normalise to `cnt OP limit` being true on the exit edge
				op, cnt, lim := b.Op, b.X, b.Y
				if isLimit(b.X) && !isLimit(b.Y) {
					cnt, lim = b.Y, b.X
					switch op {
					case token.LSS:
						op = token.GTR
					case token.LEQ:
						op = token.GEQ
					case token.GTR:
						op = token.LSS
					case token.GEQ:
						op = token.LEQ
					}
				}
				if !isLimit(lim) {
					return
				}
				if stay == 0 { // the condition is false on the exit edge: negate
					switch op {
					case token.LSS:
						op = token.GEQ
					case token.LEQ:
						op = token.GTR
					case token.GTR:
						op = token.LEQ
					case token.GEQ:
						op = token.LSS
					default:
						return
					}
				}
				if op != token.GEQ && op != token.GTR {
					return
				}
				if blockReturnsNonNilError(exit) {
					guard = ifi
					counter = cnt
					exitBlock = exit
				}
			})
			// the loop written as `for range limit` / `for i := 0; i < limit; i++`: the compiler tests the bound once before
			// the first round (a comparison of constants) and then in the latch, on the *next* value of the counter —
			// that latch test does not dominate the body, but every further round passes it
			if rotated := guard == nil || func() bool { ok, _ := counterGrows(p, counter, h); return !ok }(); rotated {
				lb := loopBlocks(h)
				for _, pr := range h.Preds {
					if !h.Dominates(pr) || len(pr.Instrs) == 0 {
						continue // not a back edge
					}
					ifi, ok := pr.Instrs[len(pr.Instrs)-1].(*ssa.If)
					if !ok {
						continue
					}
					b, ok := ifi.Cond.(*ssa.BinOp)
					if !ok || !isLimit(b.Y) || (b.Op != token.LSS && b.Op != token.LEQ) || pr.Succs[0] != h {
						continue
					}
					exit := pr.Succs[1]
					// the way out of the loop reports the error (possibly after a jump)
					for len(exit.Instrs) == 1 && len(exit.Succs) == 1 && !lb[exit] {
						exit = exit.Succs[0]
					}
					if lb[exit] || !blockReturnsNonNilError(exit) {
						continue
					}
					// this latch is the only way back into the loop
					only := true
					for _, q := range h.Preds {
						if h.Dominates(q) && q != pr {
							only = false
						}
					}
					if only {
						guard, counter, exitBlock = ifi, b.X, exit
					}
				}
			}
			c.check(guard != nil, "layout: depth guard", p.instrPos(render), "counter >= const → error dominates the render call", "no guard `counter >= constant → return error` dominates the render call: a cyclic layout chain never ends")
			if guard == nil {
				return
			}
			// the counter is loop-carried and incremented by a positive constant, never reset
			okInc, why := counterGrows(p, counter, h)
			c.check(okInc, "layout: counter grows on every iteration", p.instrPos(guard), "starts at a constant and is incremented by a positive constant", "the guarded counter does not grow on every iteration: "+why)
			// the overflow edge must not write to the destination
			d := p.destTaint()
			wrote := false
			for _, in := range exitBlock.Instrs {
				if site, ok := in.(ssa.CallInstruction); ok && p.destArg(site, d) != nil {
					wrote = true
				}
			}
			c.check(!wrote, "layout: overflow returns without output", p.instrPos(guard), "no write on the overflow edge", "the overflow edge writes to the destination before returning the error")
		},
	})

	register(&Rule{
		ID: "C07.R2", Props: []string{"C07", "C12"}, Min: 3,
		Doc: "only the outermost result reaches the destination: inside the layout loop every link is rendered into a buffer allocated in that iteration; the destination writer is used by exactly one call (the final copy), which is followed by a return; the `content` value stored for the next link comes from that buffer",
		Run: func(p *Prog, c *Ctx) {
			fn := p.MustFn("(*vuego.template).layout")
			d := p.destTaint()
			var uses []ssa.CallInstruction
			for _, site := range callsIn(fn) {
				if p.destArg(site, d) != nil {
					uses = append(uses, site)
				}
			}
			c.check(len(uses) == 1, "layout: single use of the destination", p.pos(fn.Pos()), "one call receives the caller's writer", fmt.Sprintf("%d calls receive the caller's writer: intermediate links may be written to the destination", len(uses)))
			for _, u := range uses {
				isCopy := isCall(u, "io.Copy", "(*bytes.Buffer).WriteTo", "io.WriteString", "io.Writer.Write")
				c.check(isCopy, "layout: destination receives a buffer copy", p.instrPos(u), "final copy of the last buffer", calleeName(u.Common())+" renders into the caller's writer directly")
				retNext := pathAvoiding(u, func(in ssa.Instruction) bool {
					s, ok := in.(ssa.CallInstruction)
					if !ok {
						return false
					}
					for _, rs := range p.callsToRole(fn, "(*vuego.template).renderWithoutLayout") {
						if rs == s {
							return true
						}
					}
					return calleeName(s.Common()) == "(*vuego.template).Load"
				}, nil)
				c.check(retNext == nil, "layout: nothing is rendered after the final copy", p.instrPos(u), "the copy is terminal", "another link is loaded/rendered after output was written")
			}
			for _, site := range p.callsToRole(fn, "(*vuego.template).renderWithoutLayout") {
				fresh := false
				h := loopHeaderOf(site.Block())
				// the writer argument: the one of io.Writer type
				wIdx := 2
				for i, a := range site.Common().Args {
					if isWriterType(a.Type()) {
						wIdx = i
					}
				}
				for _, o := range p.origins(site.Common().Args[wIdx], OriginOpts{}) {
					if al, ok := o.(*ssa.Alloc); ok && h != nil && loopBlocks(h)[al.Block()] {
						fresh = true
					}
				}
				c.check(fresh, "layout: link rendered into a fresh buffer", p.instrPos(site), "buffer allocated in this iteration", "a link of the chain is not rendered into a buffer allocated in the same iteration (shared buffer or the destination itself)")
			}
			// data["content"] comes from the buffer
			found := false
			eachInstr(fn, func(in ssa.Instruction) {
				mu, ok := in.(*ssa.MapUpdate)
				if !ok {
					return
				}
				if k, ok := constString(unwrapIface(mu.Key)); ok && k == "content" {
					found = true
					fromBuf := false
					for _, o := range p.origins(mu.Value, OriginOpts{}) {
						if isCallNamed(o, "(*bytes.Buffer).String", "(*strings.Builder).String") != nil {
							fromBuf = true
						}
					}
					c.check(fromBuf, "layout: content comes from the rendered buffer", p.instrPos(mu), "content = buf.String()", "the `content` variable of the next layout is not the previous link's rendered output")
				}
			})
			c.check(found, "layout: content is passed on", p.pos(fn.Pos()), "data[\"content\"] is set", "the rendered output of a link is never stored as `content` for the next layout")
		},
	})

	register(&Rule{
		ID: "C07.R3", Props: []string{"C07"}, Min: 3,
		Doc: "default-layout agreement: the constant path probed by Render (Stat == nil) and the constant assigned as default inside the chain loop are the same file, and the default is only taken for the first template when it names no layout",
		Run: func(p *Prog, c *Ctx) {
			render := p.MustFn("(*vuego.template).Render")
			layout := p.MustFn("(*vuego.template).layout")
			probe := ""
			for _, site := range callsIn(render) {
				if calleeName(site.Common()) == "(*vuego.Loader).Stat" {
					if s, ok := constString(site.Common().Args[1]); ok {
						probe = s
					}
				}
			}
			c.check(probe != "", "Render: default layout probe", p.pos(render.Pos()), "Stat(\""+probe+"\")", "Render does not probe for the default layout file")
			// constants stored into the filename cell inside the loop
			def := ""
			var defStore *ssa.Store
			eachInstr(layout, func(in ssa.Instruction) {
				if st, ok := in.(*ssa.Store); ok {
					if s, ok := constString(st.Val); ok && strings.HasSuffix(s, ".vuego") {
						def = s
						defStore = st
					}
				}
			})
			var guardBlock *ssa.BasicBlock
			if defStore != nil {
				guardBlock = defStore.Block()
			} else {
				// lifted variable: phi edge constant; the assignment happens on the edge from that predecessor
				eachInstr(layout, func(in ssa.Instruction) {
					if ph, ok := in.(*ssa.Phi); ok {
						for i, e := range ph.Edges {
							if s, ok := constString(e); ok && strings.HasSuffix(s, ".vuego") {
								def = s
								guardBlock = ph.Block().Preds[i]
							}
						}
					}
				})
			}
			c.check(def != "" && def == probe, "layout: default constant agrees with the probe", p.pos(layout.Pos()), "both are "+probe, fmt.Sprintf("Render probes %q but the chain loop defaults to %q", probe, def))
			if guardBlock != nil {
				first, noLayout := false, false
				classify := func(cnd ssa.Value, want bool) {
					if b := eqOnEdge(cnd, want); b != nil {
						// layout == ""  /  len(layout) == 0
						if s, ok := constString(b.Y); ok && s == "" {
							noLayout = true
						}
						if k, ok := constInt(b.Y); ok && k == 0 && isCallNamed(b.X, "builtin.len") != nil {
							noLayout = true
						}
						// the first round: the loop counter still has its initial value
						if ph, ok := b.X.(*ssa.Phi); ok {
							if k, ok := constInt(b.Y); ok {
								for _, e := range ph.Edges {
									if k0, ok := constInt(e); ok && k0 == k {
										first = true
									}
								}
							}
						}
					}
					if isBoolCellOrPhi(cnd) && want {
						first = true
					}
				}
				for _, g := range guardsOf(guardBlock) {
					cnd, flip := stripNot(g.If.Cond)
					classify(cnd, g.Branch != flip)
				}
				if !(first && noLayout) {
					// `if layout == "" && !first { final }; …; if layout == "" { default }`: the facts follow from the paths
					if facts, ok := pathFacts(guardBlock); ok {
						for _, f := range facts {
							classify(f.Cond, f.Want)
						}
					}
				}
				c.check(first && noLayout, "layout: default only for the first template without a layout", p.instrPos(guardBlock.Instrs[len(guardBlock.Instrs)-1]), "guarded by first-template ∧ no layout key", "the default layout is applied outside 'first template and no layout named'")
			}
		},
	})

	register(&Rule{
		ID: "C07.R4", Props: []string{"C07"}, Min: 3,
		Doc: "resolution order and anchor: resolveLayoutPath returns the layouts/ fallback only after a failed Stat on a path built from the current file's directory; in the chain loop the `current file` handed to it is the loop-carried file of the link that named the layout, never the originally loaded page",
		Run: func(p *Prog, c *Ctx) {
			fn := p.MustFn("(*vuego.template).resolveLayoutPath")
			cur := paramOf(fn, "currentFile", 2, 3)
			stats := 0
			for _, site := range callsIn(fn) {
				if calleeName(site.Common()) == "(*vuego.Loader).Stat" {
					stats++
					fromDir := false
					for _, o := range p.origins(site.Common().Args[1], OriginOpts{ThroughCall: func(cl *ssa.Call) []ssa.Value {
						n := calleeName(&cl.Call)
						if n == "path/filepath.Join" || n == "path.Join" || n == "path/filepath.Dir" || n == "path.Dir" {
							return cl.Call.Args
						}
						return nil
					}}) {
						if o == cur {
							fromDir = true
						}
						// variadic packing
						if ld, ok := o.(*ssa.UnOp); ok {
							_ = ld
						}
					}
					if !fromDir {
						fromDir = p.derivedFrom(site.Common().Args[1], cur, 6)
					}
					if !fromDir {
						// the candidates are collected first and probed in a loop: an element of a list that
						// append built from paths joined with the current file's directory
						var reaches func(v ssa.Value, depth int, seen map[ssa.Value]bool) bool
						reaches = func(v ssa.Value, depth int, seen map[ssa.Value]bool) bool {
							if v == nil || seen[v] || depth > 8 {
								return false
							}
							seen[v] = true
							for _, o := range p.origins(v, OriginOpts{ThroughCall: func(cl *ssa.Call) []ssa.Value {
								n := calleeName(&cl.Call)
								if n == "path/filepath.Join" || n == "path.Join" || n == "path/filepath.Dir" || n == "path.Dir" {
									return cl.Call.Args
								}
								if bi, ok := cl.Call.Value.(*ssa.Builtin); ok && bi.Name() == "append" {
									return cl.Call.Args
								}
								return nil
							}}) {
								if o == ssa.Value(cur) || p.derivedFrom(o, cur, 4) {
									return true
								}
								if ld, ok := o.(*ssa.UnOp); ok && ld.Op == token.MUL {
									if ia, ok := ld.X.(*ssa.IndexAddr); ok && reaches(ia.X, depth+1, seen) {
										return true
									}
								}
								if al, ok := o.(*ssa.Alloc); ok && al.Referrers() != nil {
									for _, r := range *al.Referrers() {
										if ia, ok := r.(*ssa.IndexAddr); ok && ia.Referrers() != nil {
											for _, u := range *ia.Referrers() {
												if st, ok := u.(*ssa.Store); ok && reaches(st.Val, depth+1, seen) {
													return true
												}
											}
										}
									}
								}
							}
							return false
						}
						fromDir = reaches(site.Common().Args[1], 0, map[ssa.Value]bool{})
					}
					c.check(fromDir, fmt.Sprintf("resolveLayoutPath: Stat#%d probes relative to the current file", stats), p.instrPos(site), "path derived from the current file's directory", "the probed path does not depend on the current file's directory")
				}
			}
			for i, r := range returnsOf(fn) {
				isFallback := false
				for _, o := range p.origins(r.Results[0], OriginOpts{}) {
					if s, ok := constString(o); ok && strings.HasPrefix(s, "layouts") {
						isFallback = true
					}
				}
				if !isFallback {
					continue
				}
				failed := 0
				for _, g := range guardsOf(r.Block()) {
					if b, ok := g.If.Cond.(*ssa.BinOp); ok && isCallNamed(b.X, "(*vuego.Loader).Stat") != nil && isNilConst(b.Y) {
						if (b.Op == token.EQL && !g.Branch) || (b.Op == token.NEQ && g.Branch) {
							failed++
						}
					}
				}
				if failed == 0 {
					// the probes may be a loop over a list of candidates: the fallback follows a loop that Stats every
					// candidate, leaves only by returning the probed path, and runs at least once (an unconditional
					// append fills the list before the loop)
					for x := r.Block(); x != nil && failed == 0; x = x.Idom() {
						isHeader := false
						for _, pr := range x.Preds {
							if x.Dominates(pr) {
								isHeader = true
							}
						}
						if !isHeader || x == r.Block() {
							continue
						}
						loop := loopBlocks(x)
						hasStat, exitsOK := false, true
						for b := range loop {
							for _, in := range b.Instrs {
								if site, ok := in.(ssa.CallInstruction); ok && calleeName(site.Common()) == "(*vuego.Loader).Stat" {
									hasStat = true
								}
							}
							if b == x {
								continue
							}
							for _, sc := range b.Succs {
								if !loop[sc] {
									if _, isRet := sc.Instrs[len(sc.Instrs)-1].(*ssa.Return); !isRet {
										exitsOK = false
									}
								}
							}
						}
						nonEmpty := false
						eachInstr(fn, func(in ssa.Instruction) {
							if cl, ok := in.(*ssa.Call); ok && calleeName(&cl.Call) == "builtin.append" && cl.Block().Dominates(x) && !loop[cl.Block()] {
								// the appended-to list is what the loop walks
								for _, b := range []*ssa.BasicBlock{x} {
									for _, hi := range b.Instrs {
										for _, op := range hi.Operands(nil) {
											if op == nil || *op == nil {
												continue
											}
											for _, o := range p.origins(*op, OriginOpts{}) {
												if o == ssa.Value(cl) {
													nonEmpty = true
												}
											}
										}
									}
								}
								if pre := x.Idom(); pre != nil {
									for _, hi := range pre.Instrs {
										if ln := isCallNamed(valueOf(hi), "builtin.len"); ln != nil {
											for _, o := range p.origins(ln.Call.Args[0], OriginOpts{}) {
												if o == ssa.Value(cl) {
													nonEmpty = true
												}
											}
										}
									}
								}
							}
						})
						if hasStat && exitsOK && nonEmpty {
							failed = 1
						}
					}
				}
				c.check(failed >= 1, fmt.Sprintf("resolveLayoutPath: fallback return#%d after a failed relative Stat", i+1), p.instrPos(r), fmt.Sprintf("%d failed relative probe(s) on every path to the fallback", failed), "the layouts/ fallback can be returned without having probed the path relative to the current file")
			}
			// call site in the loop
			lay := p.MustFn("(*vuego.template).layout")
			for _, site := range callsIn(lay) {
				if site.Common().StaticCallee() != fn {
					continue
				}
				arg := site.Common().Args[2]
				carried := false
				for _, o := range p.origins(arg, OriginOpts{}) {
					if cl, ok := o.(*ssa.Call); ok && cl.Common().StaticCallee() == fn {
						carried = true // previous iteration's resolved path
					}
				}
				h := loopHeaderOf(site.Block())
				if ph, ok := arg.(*ssa.Phi); ok && h != nil && ph.Block() == h {
					carried = true
				}
				if ld, ok := arg.(*ssa.UnOp); ok {
					if cell := cellOf(ld.X); cell != nil {
						for _, st := range storesToCell(cell) {
							if h != nil && loopBlocks(h)[st.Block()] {
								carried = true
							}
						}
					}
				}
				c.check(carried, "layout: next layout resolved relative to the current link", p.instrPos(site), "the file argument is the loop-carried current file", "the next layout is resolved relative to a file that does not change along the chain (the page): a layout in another directory cannot name its sibling")
			}
		},
	})

	register(&Rule{
		ID: "C07.R5", Props: []string{"C07"}, Min: 2, // one obligation per back edge of the chain loop (two today, one for a for-loop with a post statement) + the data map
		Doc: "the chain consumes its key and keeps one data map: every path that continues the loop deletes the `layout` key from the accumulated data before the next Fill, and the accumulated data map itself is created once before the loop and only updated inside it (never replaced by a link's own environment, which would let a layout's front-matter shadow the page's)",
		Run: func(p *Prog, c *Ctx) {
			fn := p.MustFn("(*vuego.template).layout")
			var render ssa.Instruction
			for _, site := range p.callsToRole(fn, "(*vuego.template).renderWithoutLayout") {
				render = site
			}
			if render == nil {
				undecided("layout: no render call")
			}
			h := loopHeaderOf(render.Block())
			if h == nil {
				undecided("layout: render call not in a loop")
			}
			loop := loopBlocks(h)
			// back-edge sources
			n := 0
			for _, pr := range h.Preds {
				if !h.Dominates(pr) {
					continue
				}
				n++
				// a delete(data, "layout") must be passed on every path from the render call to this back edge
				isDel := func(in ssa.Instruction) bool {
					cl, ok := in.(*ssa.Call)
					if !ok || calleeName(&cl.Call) != "builtin.delete" {
						return false
					}
					k, ok := constString(unwrapIface(cl.Call.Args[1]))
					return ok && k == "layout"
				}
				last := pr.Instrs[len(pr.Instrs)-1]
				reach := pathAvoiding(render, func(in ssa.Instruction) bool { return in == last }, isDel)
				c.check(reach == nil, fmt.Sprintf("layout: continue path#%d deletes the consumed layout key", n), p.instrPos(last), "delete(data, \"layout\") on every path to the next iteration", "a path continues with the next link without deleting the `layout` key: a layout without its own key re-reads the page's and the chain does not end by itself")
			}
			// data map is not reassigned inside the loop
			fill := (*ssa.Call)(nil)
			for _, site := range callsIn(fn) {
				if strings.HasSuffix(calleeName(site.Common()), ".Fill") && loop[site.Block()] {
					fill, _ = site.(*ssa.Call)
				}
			}
			if fill == nil {
				undecided("layout: no Fill call in the loop")
			}
			args := callArgs(fill.Common())
			dataArg := args[len(args)-1]
			okData := true
			why := ""
			for _, o := range p.origins(dataArg, OriginOpts{}) {
				cl, ok := o.(*ssa.Call)
				if !ok {
					okData, why = false, "the data passed to Fill originates from "+describeValue(o)
					continue
				}
				if loop[cl.Block()] {
					okData, why = false, "the accumulated data is replaced inside the loop by "+calleeName(&cl.Call)+" at "+p.instrPos(cl)
				}
			}
			c.check(okData, "layout: one accumulated data map", p.instrPos(fill), "data is created before the loop and only updated inside it", why+": the page's data and front-matter are no longer what the outer layouts see")
		},
	})

	register(&Rule{
		ID: "C08.R1", Props: []string{"C08", "C07"}, Min: 8, // C07: the layout key and the data carried along the chain are read from the filled stack
		Doc: "merge order in each place that builds a scope from several sources: the writes into the target map happen lowest precedence first — Fill: auto-loaded config, then the passed data, then the loaded front-matter; loadConfig: theme.yml before the data/ directory; Load: copy of the parent, then front-matter; Vue.Render/RenderFragment/RenderNodes: passed data, then front-matter",
		Run: func(p *Prog, c *Ctx) {
			type src struct {
				name string
				is   func(v ssa.Value) bool
			}
			fieldNamed := func(name string) func(ssa.Value) bool {
				return func(v ssa.Value) bool {
					for _, o := range p.origins(v, OriginOpts{}) {
						if f := loadedField(o); f != nil && f.Name() == name {
							return true
						}
					}
					return false
				}
			}
			callNamed := func(names ...string) func(ssa.Value) bool {
				return func(v ssa.Value) bool {
					for _, o := range p.origins(v, OriginOpts{}) {
						if isCallNamed(o, names...) != nil {
							return true
						}
						if ex, ok := o.(*ssa.Extract); ok {
							if isCallNamed(ex.Tuple, names...) != nil && ex.Index == 0 {
								return true
							}
						}
					}
					return false
				}
			}
			checkOrder := func(fnName string, order []src) {
				fn := p.MustFn(fnName)
				// ranges over each source, in CFG order; a merge helper extracted from fn is looked into:
				// a range over a parameter of a direct module callee counts for the source its argument comes from
				var pos []ssa.Instruction
				for _, s := range order {
					var found ssa.Instruction
					eachInstr(fn, func(in ssa.Instruction) {
						if r, ok := in.(*ssa.Range); ok && found == nil && s.is(r.X) {
							found = r
						}
					})
					if found == nil {
						for _, site := range callsIn(fn) {
							callee := site.Common().StaticCallee()
							if callee == nil || !inModule(callee) || callee == fn || found != nil {
								continue
							}
							for ai, a := range site.Common().Args {
								if ai >= len(callee.Params) || !s.is(a) {
									continue
								}
								eachInstr(callee, func(in ssa.Instruction) {
									if r, ok := in.(*ssa.Range); ok && found == nil && r.X == callee.Params[ai] {
										found = r
									}
								})
							}
							// … or the helper obtains the source itself
							eachInstr(callee, func(in ssa.Instruction) {
								if r, ok := in.(*ssa.Range); ok && found == nil && s.is(r.X) {
									found = r
								}
							})
						}
					}
					c.check(found != nil, fnName+": merges "+s.name, p.pos(fn.Pos()), "range over "+s.name, "the source `"+s.name+"` is no longer merged here")
					pos = append(pos, found)
				}
				for i := 0; i+1 < len(pos); i++ {
					if pos[i] == nil || pos[i+1] == nil {
						continue
					}
					okO := canFollow(pos[i], pos[i+1]) && !canFollow(pos[i+1], pos[i])
					c.check(okO, fmt.Sprintf("%s: %s before %s", fnName, order[i].name, order[i+1].name), p.instrPos(pos[i+1]), "lower precedence is written first", fmt.Sprintf("`%s` is merged after `%s`: the precedence of the two sources is reversed", order[i].name, order[i+1].name))
				}
			}
			checkOrder("(*vuego.template).Fill", []src{{"initialData (theme.yml, data/*.yml)", fieldNamed("initialData")}, {"passed data", callNamed("vuego.toMapData")}, {"front-matter", fieldNamed("frontMatter")}})
			for _, f := range []string{"(*vuego.Vue).Render", "(*vuego.Vue).RenderFragment"} {
				checkOrder(f, []src{{"passed data", callNamed("vuego.toMapData")}, {"front-matter", callNamed("(*vuego.Vue).loadCachedWithFrontMatter", "(*vuego.Loader).loadFragment")}})
			}
			// loadConfig: theme.yml call precedes the data/ loop
			lc := p.MustFn("vuego.loadConfig")
			var theme, dataDir ssa.Instruction
			for _, site := range callsIn(lc) {
				for _, a := range site.Common().Args {
					if s, ok := constString(a); ok && s == "theme.yml" {
						theme = site
					}
				}
				if isCall(site, "io/fs.ReadDir") {
					dataDir = site
				}
			}
			c.check(theme != nil && dataDir != nil && dominates(theme, dataDir), "loadConfig: theme.yml before data/", p.pos(lc.Pos()), "theme.yml is loaded first, data/ files override it", "theme.yml is not loaded before the data/ directory: data/*.yml no longer overrides theme.yml")
			// Load: front-matter assigned on the copy after new()
			ld := p.MustFn("(*vuego.template).Load")
			okLoad := p.loadAssignsFrontMatter()
			c.check(okLoad, "Load: front-matter assigned on top of the copied parent data", p.pos(ld.Pos()), "tpl := t.new(); tpl.Assign(front-matter)", "Load does not assign the file's front-matter onto the fresh copy of the parent's data")
		},
	})

	register(&Rule{
		ID: "C08.R3", Props: []string{"C08", "C09", "C10", "C07"}, Min: 3,
		Doc: "children never write to the parent: New/new/Load build the child's stack from Copy() (or a fresh stack), never from the parent's own stack field, and store nothing into the receiver; Fill installs a map made in the call as the root scope, never the caller's map",
		Run: func(p *Prog, c *Ctx) {
			for _, name := range []string{"(*vuego.template).new", "(*vuego.template).Load", "(*vuego.template).New"} {
				fn := p.Fn(name)
				if fn == nil {
					if hosts, _ := p.hostsOf(name); len(hosts) > 0 {
						continue // inlined by hand into New/Load, which are checked themselves
					}
					undecided("anchor function %s not found in the module (renamed or removed): the rule cannot be decided", name)
				}
				recv := fn.Params[0]
				wrote := ""
				eachInstr(fn, func(in ssa.Instruction) {
					switch x := in.(type) {
					case *ssa.Store:
						if fa, ok := x.Addr.(*ssa.FieldAddr); ok && fa.X == recv {
							wrote = "store to the receiver's field " + fieldName(fa.X.Type(), fa.Field) + " at " + p.instrPos(x)
						}
					case ssa.CallInstruction:
						n := calleeName(x.Common())
						if (n == "(*vuego.template).Assign" || n == "(*vuego.template).Fill" || strings.HasPrefix(n, "(*vuego.Stack).Set") || strings.HasPrefix(n, "(*vuego.Stack).Push")) && len(x.Common().Args) > 0 {
							for _, o := range p.origins(x.Common().Args[0], OriginOpts{}) {
								if o == recv {
									wrote = n + " on the receiver at " + p.instrPos(x)
								}
								if f := loadedField(o); f != nil && fieldIs(f, "stack") {
									if ld, ok := o.(*ssa.UnOp); ok {
										if fa, ok := ld.X.(*ssa.FieldAddr); ok && fa.X == recv {
											wrote = n + " on the receiver's stack at " + p.instrPos(x)
										}
									}
								}
							}
						}
					}
				})
				c.check(wrote == "", name+": receiver untouched", p.pos(fn.Pos()), "no write to the parent template", wrote+": the parent (and every sibling created from it) sees the child's data")
			}
			nws, _ := p.hostsOf("(*vuego.template).new")
			if len(nws) == 0 {
				undecided("anchor function (*vuego.template).new not found, nor its former callers")
			}
			nw := nws[0]
			okStack := true
			for _, host := range nws {
				found := false
				eachInstr(host, func(in ssa.Instruction) {
					st, ok := in.(*ssa.Store)
					if !ok {
						return
					}
					if fv := fieldVar(st.Addr); fv != nil && fieldIs(fv, "stack") {
						// a store into the stack field of a template built here (not of the receiver: checked above)
						if fa, ok := st.Addr.(*ssa.FieldAddr); ok && len(host.Params) > 0 && fa.X == ssa.Value(host.Params[0]) {
							return
						}
						found = true
						for _, o := range p.origins(st.Val, OriginOpts{}) {
							if isCallNamed(o, "(*vuego.Stack).Copy", "vuego.NewStack", "vuego.NewStackWithData") == nil {
								okStack = false
							}
						}
					}
				})
				if !found {
					okStack = false
				}
			}
			c.check(okStack, "new: child stack is a copy", p.pos(nw.Pos()), "stack: t.stack.Copy()", "the child template shares the parent's stack object: Assign on the child changes what the parent and siblings see")
			fill := p.MustFn("(*vuego.template).Fill")
			for _, site := range callsIn(fill) {
				if calleeName(site.Common()) != "vuego.NewStackWithData" {
					continue
				}
				fresh := true
				for _, o := range p.origins(site.Common().Args[0], OriginOpts{}) {
					if _, ok := o.(*ssa.MakeMap); !ok {
						fresh = false
					}
				}
				c.check(fresh, "Fill: root scope is a map made in the call", p.instrPos(site), "fresh map", "Fill installs a map it did not create as the root scope (the caller's own map on some path): Assign then writes into the caller's data and sibling templates filled from the same map see it")
			}
		},
	})

	register(&Rule{
		ID: "C08.R4", Props: []string{"C08", "C15"}, Min: 3,
		Doc: "front-matter is never dropped: wherever a template file is loaded (loadFragment / the template cache), its front-matter result is consumed — merged into the data, assigned, stored or returned — on the path that goes on to render that file; and every Template render of a loaded file goes through the engine path that re-applies the file's front-matter over the data",
		Run: func(p *Prog, c *Ctx) {
			n := 0
			for _, fn := range p.Funcs {
				for _, site := range callsIn(fn) {
					nm := calleeName(site.Common())
					if nm != "(*vuego.Loader).loadFragment" && nm != "(*vuego.Vue).loadCachedWithFrontMatter" {
						continue
					}
					cv, ok := site.(*ssa.Call)
					if !ok {
						continue
					}
					n++
					used := false
					if refs := cv.Referrers(); refs != nil {
						for _, r := range *refs {
							if ex, ok := r.(*ssa.Extract); ok && ex.Index == 0 {
								if erefs := ex.Referrers(); erefs != nil && len(*erefs) > 0 {
									used = true
								}
							}
						}
					}
					// LoadFragment (exported) documents that front-matter is discarded
					if fn.Name() == "LoadFragment" {
						c.ok(fmt.Sprintf("%s: %s front-matter#%d", shortName(fn), nm, n), p.instrPos(site), "documented: front-matter extracted and discarded")
						continue
					}
					c.check(used, fmt.Sprintf("%s: %s front-matter#%d", shortName(fn), nm, n), p.instrPos(site), "front-matter result is consumed", "the file's front-matter is loaded and dropped: the rendered file's own front-matter no longer takes precedence")
				}
			}
			// (when the small method was inlined into its callers and deleted, every former caller must render this way)
			rws, _ := p.hostsOf("(*vuego.template).renderWithoutLayout")
			if len(rws) == 0 {
				undecided("renderWithoutLayout: neither the method nor its former callers exist")
			}
			calls := true
			for _, rw := range rws {
				has := false
				for _, site := range callsIn(rw) {
					if calleeName(site.Common()) == "(*vuego.Vue).Render" {
						has = true
					}
				}
				if !has {
					calls = false
				}
			}
			rw := rws[0]
			c.check(calls, "renderWithoutLayout: renders through Vue.Render", p.pos(rw.Pos()), "front-matter is re-applied over the stack's data", "a loaded template is rendered without going through Vue.Render, which re-applies the file's front-matter: a value assigned after Load then beats front-matter")
		},
	})
}

func unwrapIface(v ssa.Value) ssa.Value {
	for {
		switch x := v.(type) {
		case *ssa.MakeInterface:
			v = x.X
		case *ssa.ChangeType:
			v = x.X
		default:
			return v
		}
	}
}

func isBoolCellOrPhi(v ssa.Value) bool {
	b, ok := v.Type().Underlying().(*types.Basic)
	if !ok || b.Kind() != types.Bool {
		return false
	}
	switch x := v.(type) {
	case *ssa.Phi:
		return true
	case *ssa.UnOp:
		return x.Op == token.MUL && cellOf(x.X) != nil
	}
	return false
}

// counterGrows: v is a loop-carried integer (phi at the loop header or a cell) that starts at a
// constant, and every assignment inside the loop adds a positive constant.
func counterGrows(p *Prog, v ssa.Value, h *ssa.BasicBlock) (bool, string) {
	loop := loopBlocks(h)
	// the guard of a range-over-int (or otherwise rotated) loop tests the *next* value: counter+const, where counter
	// is the φ — which that very value is fed back into
	if b, ok := v.(*ssa.BinOp); ok && b.Op == token.ADD {
		if ph, isPhi := b.X.(*ssa.Phi); isPhi {
			if k, isK := constInt(b.Y); isK && k > 0 {
				for _, e := range ph.Edges {
					if e == ssa.Value(b) {
						return counterGrows(p, ph, h)
					}
				}
			}
		}
	}
	switch x := v.(type) {
	case *ssa.Phi:
		inc := false
		for _, e := range x.Edges {
			if _, ok := constInt(e); ok {
				continue
			}
			if b, ok := e.(*ssa.BinOp); ok && b.Op == token.ADD && b.X == x {
				if k, ok := constInt(b.Y); ok && k > 0 {
					inc = true
					continue
				}
			}
			return false, "an edge of the counter is neither a constant start nor counter+const"
		}
		if !inc {
			return false, "the counter is never incremented"
		}
		// the increment must be executed on every iteration: its block dominates all back-edge sources
		for _, e := range x.Edges {
			if b, ok := e.(*ssa.BinOp); ok {
				for _, pr := range h.Preds {
					if h.Dominates(pr) && !b.Block().Dominates(pr) {
						return false, "an iteration can continue without passing the increment"
					}
				}
			}
		}
		return true, ""
	case *ssa.UnOp:
		cell := cellOf(x.X)
		if cell == nil {
			return false, "not a local counter"
		}
		inc := false
		for _, st := range storesToCell(cell) {
			if _, ok := constInt(st.Val); ok && !loop[st.Block()] {
				continue
			}
			if b, ok := st.Val.(*ssa.BinOp); ok && b.Op == token.ADD {
				if k, ok := constInt(b.Y); ok && k > 0 {
					inc = true
					for _, pr := range h.Preds {
						if h.Dominates(pr) && !st.Block().Dominates(pr) {
							return false, "an iteration can continue without passing the increment"
						}
					}
					continue
				}
			}
			return false, "the counter is assigned something other than const or counter+const at " + p.instrPos(st)
		}
		if !inc {
			return false, "the counter is never incremented"
		}
		return true, ""
	}
	return false, "the guarded quantity is not loop-carried"
}

// derivedFrom: v is computed from src through calls/concatenation/variadic packing (bounded depth).
func (p *Prog) derivedFrom(v, src ssa.Value, depth int) bool {
	seen := map[ssa.Value]bool{}
	var walk func(v ssa.Value, d int) bool
	walk = func(v ssa.Value, d int) bool {
		if v == nil || seen[v] || d > depth {
			return false
		}
		seen[v] = true
		if v == src {
			return true
		}
		for _, o := range p.origins(v, OriginOpts{}) {
			if o == src {
				return true
			}
			switch x := o.(type) {
			case *ssa.Call:
				for _, a := range callArgs(&x.Call) {
					if walk(a, d+1) {
						return true
					}
				}
			case *ssa.Alloc:
				// variadic backing array: look at stored elements
				if refs := x.Referrers(); refs != nil {
					for _, r := range *refs {
						if ia, ok := r.(*ssa.IndexAddr); ok {
							if irefs := ia.Referrers(); irefs != nil {
								for _, ir := range *irefs {
									if st, ok := ir.(*ssa.Store); ok && walk(st.Val, d+1) {
										return true
									}
								}
							}
						}
					}
				}
			case *ssa.Extract:
				if cl, ok := x.Tuple.(*ssa.Call); ok {
					for _, a := range callArgs(&cl.Call) {
						if walk(a, d+1) {
							return true
						}
					}
				}
			}
		}
		return false
	}
	return walk(v, 0)
}

// loadAssignsFrontMatter: Template.Load binds the loaded file's front-matter in the fresh template's own
// scope (tpl := t.new(); tpl.Assign / tpl.stack.Set), after the copy of the parent's data was made.
func (p *Prog) loadAssignsFrontMatter() bool {
	ld := p.MustFn("(*vuego.template).Load")
	var newCall ssa.Instruction
	var assigns []ssa.CallInstruction
	for _, site := range callsIn(ld) {
		switch calleeName(site.Common()) {
		case "(*vuego.template).new":
			newCall = site
		case "(*vuego.template).Assign", "(*vuego.Stack).Set":
			assigns = append(assigns, site)
		}
	}
	if newCall == nil {
		// the constructor was inlined: the fresh template is the struct allocated here
		eachInstr(ld, func(in ssa.Instruction) {
			if al, ok := in.(*ssa.Alloc); ok && al.Heap && strings.HasSuffix(typeShort(al.Type()), "vuego.template") {
				newCall = al
			}
		})
	}
	okLoad := false
	for _, assign := range assigns {
		if newCall == nil || !dominates(newCall, assign) {
			continue
		}
		recv := assign.Common().Args[0]
		if calleeName(assign.Common()) == "(*vuego.Stack).Set" {
			// tpl.stack.Set(k, v): the receiver is the stack field of the fresh template
			f := loadedField(recv)
			ld, isLoad := recv.(*ssa.UnOp)
			if f == nil || !fieldIs(f, "stack") || !isLoad {
				continue
			}
			recv = ld.X.(*ssa.FieldAddr).X
		}
		for _, o := range p.origins(recv, OriginOpts{}) {
			if o == newCall.(ssa.Value) {
				okLoad = true
			}
		}
	}
	return okLoad
}

// valueOf returns the instruction as a value, or nil.
func valueOf(in ssa.Instruction) ssa.Value {
	v, _ := in.(ssa.Value)
	return v
}
