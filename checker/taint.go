package main

import (
	"fmt"
	"go/token"
	"go/types"

	"golang.org/x/tools/go/ssa"
)

// Taint is a generic forward value-flow ("fate of a value"): from seeded values through
// projections, conversions, string building, local cells and closures, struct fields (field-based),
// containers, calls (parameter binding into module functions; arguments → result for everything
// else), and returns to all callers. Sanitizers stop the flow; sinks record a hit.
type Taint struct {
	p   *Prog
	Why map[ssa.Value]string
	// Sanitizer: the call consumes the tainted argument and its result is clean (e.g. an escaper).
	Sanitizer func(site ssa.CallInstruction, arg ssa.Value) bool
	// Sink returns a non-empty description when `u` using tainted `v` is a sink.
	Sink func(u ssa.Instruction, v ssa.Value) string
	// StopCall: do not propagate through this call at all (neither into the callee nor to its result).
	StopCall func(site ssa.CallInstruction, arg ssa.Value) bool
	// FollowField: whether a store into this struct field taints all loads of the field.
	FollowField func(fv *types.Var) bool
	// Scope, when set, confines the flow to these functions (no parameter binding into, and no
	// return to, functions outside it).
	Scope func(fn *ssa.Function) bool
	// PhiEdge, when set, is asked for every φ edge a tainted value arrives on; false stops the flow
	// along that edge (the edge is only taken under a condition that makes the value harmless).
	PhiEdge func(phi *ssa.Phi, edge int, v ssa.Value) bool
	// StopUse, when set, vetoes the flow from v into this one user (e.g. a projection that leaves the
	// object of interest).
	StopUse func(u ssa.Instruction, v ssa.Value) bool
	Hits    []TaintHit
	work    []ssa.Value
	fieldT  map[*types.Var]string
	hitSeen map[ssa.Instruction]bool
	Steps   int
}

type TaintHit struct {
	At   ssa.Instruction
	What string
	Why  string
}

func newTaint(p *Prog) *Taint {
	return &Taint{p: p, Why: map[ssa.Value]string{}, fieldT: map[*types.Var]string{}, hitSeen: map[ssa.Instruction]bool{}}
}

func (t *Taint) Seed(v ssa.Value, why string) {
	if v == nil {
		return
	}
	if _, ok := t.Why[v]; ok {
		return
	}
	t.Why[v] = why
	t.work = append(t.work, v)
}

func (t *Taint) hit(at ssa.Instruction, what string, v ssa.Value) {
	if t.hitSeen[at] {
		return
	}
	t.hitSeen[at] = true
	t.Hits = append(t.Hits, TaintHit{At: at, What: what, Why: t.Why[v]})
}

func (t *Taint) Run() {
	for len(t.work) > 0 {
		v := t.work[len(t.work)-1]
		t.work = t.work[:len(t.work)-1]
		why := t.Why[v]
		refs := v.Referrers()
		if refs == nil {
			continue
		}
		for _, u := range *refs {
			t.Steps++
			if t.StopUse != nil && t.StopUse(u, v) {
				continue
			}
			if t.Sink != nil {
				if what := t.Sink(u, v); what != "" {
					t.hit(u, what, v)
					continue // report the first sink on a flow; do not follow the value past it
				}
			}
			switch x := u.(type) {
			case *ssa.Phi:
				pass := t.PhiEdge == nil
				if !pass {
					for i, e := range x.Edges {
						if e == v && t.PhiEdge(x, i, v) {
							pass = true
						}
					}
				}
				if pass {
					t.Seed(x, why)
				}
			case *ssa.ChangeType, *ssa.Convert, *ssa.MakeInterface, *ssa.ChangeInterface, *ssa.TypeAssert, *ssa.Extract, *ssa.Slice, *ssa.Index, *ssa.Field, *ssa.BinOp:
				t.Seed(x.(ssa.Value), why)
			case *ssa.UnOp:
				if x.Op != token.MUL || isAddrOfTainted(x, v) {
					t.Seed(x, why)
				}
			case *ssa.Lookup:
				if x.X == v {
					t.Seed(x, why)
				}
			case *ssa.Range, *ssa.Next:
				t.Seed(x.(ssa.Value), why)
			case *ssa.FieldAddr, *ssa.IndexAddr:
				// address inside a tainted aggregate: loads through it are tainted
				t.Seed(x.(ssa.Value), why)
			case *ssa.MapUpdate:
				if x.Value == v || x.Key == v {
					t.Seed(x.Map, why+" → stored in a map at "+t.p.instrPos(x))
				}
			case *ssa.Store:
				if x.Val != v {
					continue
				}
				if cell := cellOf(x.Addr); cell != nil {
					walkFuncTree(rootFunc(cell.Parent()), func(f *ssa.Function) {
						eachInstr(f, func(in ssa.Instruction) {
							if ld, ok := in.(*ssa.UnOp); ok && ld.Op == token.MUL && cellOf(ld.X) == cell {
								t.Seed(ld, why)
							}
						})
					})
				} else if ia, ok := x.Addr.(*ssa.IndexAddr); ok {
					t.Seed(ia.X, why+" → stored as an element at "+t.p.instrPos(x))
				} else if fv := fieldVar(x.Addr); fv != nil {
					if t.FollowField == nil || t.FollowField(fv) {
						if _, ok := t.fieldT[fv]; !ok {
							t.fieldT[fv] = why + " → stored in field " + fv.Name() + " at " + t.p.instrPos(x)
							t.taintFieldLoads(fv)
						}
					}
				}
			case ssa.CallInstruction:
				t.call(x, v, why)
			case *ssa.Return:
				fn := x.Parent()
				for idx, r := range x.Results {
					if r != v {
						continue
					}
					for _, site := range t.p.Callers(fn) {
						cv, ok := site.(*ssa.Call)
						if !ok {
							continue
						}
						if t.Scope != nil && !t.Scope(site.Parent()) {
							continue
						}
						w := why + " → returned by " + shortName(fn)
						if fn.Signature.Results().Len() == 1 {
							t.Seed(cv, w)
						} else if crefs := cv.Referrers(); crefs != nil {
							for _, rr := range *crefs {
								if ex, ok := rr.(*ssa.Extract); ok && ex.Index == idx {
									t.Seed(ex, w)
								}
							}
						}
					}
				}
			}
		}
	}
}

func isAddrOfTainted(ld *ssa.UnOp, v ssa.Value) bool { return ld.X == v }

func (t *Taint) taintFieldLoads(fv *types.Var) {
	for _, fn := range t.p.Funcs {
		eachInstr(fn, func(in ssa.Instruction) {
			switch x := in.(type) {
			case *ssa.FieldAddr:
				if fieldVar(x) == fv {
					if refs := x.Referrers(); refs != nil {
						for _, r := range *refs {
							if ld, ok := r.(*ssa.UnOp); ok && ld.Op == token.MUL {
								t.Seed(ld, t.fieldT[fv])
							}
						}
					}
				}
			case *ssa.Field:
				if fieldVar(x) == fv {
					t.Seed(x, t.fieldT[fv])
				}
			}
		})
	}
}

func (t *Taint) call(site ssa.CallInstruction, v ssa.Value, why string) {
	cc := site.Common()
	if t.StopCall != nil && t.StopCall(site, v) {
		return
	}
	if t.Sanitizer != nil && t.Sanitizer(site, v) {
		return
	}
	args := callArgs(cc)
	toModule := false
	for _, callee := range t.p.Callees(site) {
		if !inModule(callee) || len(callee.Blocks) == 0 {
			continue
		}
		toModule = true
		if t.Scope != nil && !t.Scope(callee) {
			continue
		}
		for ai, a := range args {
			if a == v && ai < len(callee.Params) {
				t.Seed(callee.Params[ai], fmt.Sprintf("%s → passed to %s at %s", why, shortName(callee), t.p.instrPos(site)))
			}
		}
		// a closure value that is tainted as a whole does not bind parameters
	}
	if toModule {
		return
	}
	// external or builtin: the result depends on the arguments; a receiver / destination accumulates them
	name := calleeName(cc)
	if cv, ok := site.(*ssa.Call); ok {
		t.Seed(cv, why+" → through "+name)
	}
	if len(args) > 0 && args[0] != v {
		_, isPtr := args[0].Type().Underlying().(*types.Pointer)
		method := cc.IsInvoke() || (cc.StaticCallee() != nil && cc.StaticCallee().Signature.Recv() != nil)
		switch {
		case isPtr && method, cc.IsInvoke():
			t.seedObject(args[0], why+" → written into the receiver of "+name)
		case name == "io.WriteString" || name == "io.Copy" || name == "fmt.Fprint" || name == "fmt.Fprintf" || name == "fmt.Fprintln":
			t.seedObject(args[0], why+" → written into the destination of "+name)
		}
	}
}

// seedObject taints an object that accumulates tainted content (a builder, buffer or writer): the
// value itself, what it was converted from, and — when it is a parameter — the arguments at every
// call site, since the caller's object is the same one.
func (t *Taint) seedObject(v ssa.Value, why string) {
	seen := map[ssa.Value]bool{}
	var walk func(v ssa.Value)
	walk = func(v ssa.Value) {
		if v == nil || seen[v] {
			return
		}
		seen[v] = true
		t.Seed(v, why)
		switch x := v.(type) {
		case *ssa.MakeInterface:
			walk(x.X)
		case *ssa.ChangeType:
			walk(x.X)
		case *ssa.ChangeInterface:
			walk(x.X)
		case *ssa.Phi:
			for _, e := range x.Edges {
				walk(e)
			}
		case *ssa.UnOp:
			if x.Op == token.MUL {
				if c := cellOf(x.X); c != nil {
					for _, st := range storesToCell(c) {
						walk(st.Val)
					}
				}
			}
		case *ssa.Parameter:
			fn := x.Parent()
			idx := -1
			for i, q := range fn.Params {
				if q == x {
					idx = i
				}
			}
			for _, site := range t.p.Callers(fn) {
				a := callArgs(site.Common())
				if idx >= 0 && idx < len(a) {
					walk(a[idx])
				}
			}
		}
	}
	walk(v)
}
