package main

import (
	"go/constant"
	"go/token"
	"go/types"
	"strings"

	"golang.org/x/tools/go/ssa"
)

// Kind-set dataflow: for one reflect.Value / reflect.Type subject, which reflect.Kinds are possible
// at the entry of every block. Conditions on `subject.Kind()` refine the set along CFG edges;
// joins take the union. This sees if-form, switch-form (`case A, B:`), range idioms
// (`k >= Int && k <= Int64`), early returns and loop-header guards alike.

type kindSet uint32

const allKinds kindSet = (1 << 27) - 1

var kindNames = []string{"Invalid", "Bool", "Int", "Int8", "Int16", "Int32", "Int64", "Uint", "Uint8", "Uint16", "Uint32", "Uint64", "Uintptr", "Float32", "Float64", "Complex64", "Complex128", "Array", "Chan", "Func", "Interface", "Map", "Pointer", "Slice", "String", "Struct", "UnsafePointer"}

func kindsOf(names ...string) kindSet {
	var s kindSet
	for _, n := range names {
		for i, k := range kindNames {
			if k == n {
				s |= 1 << uint(i)
			}
		}
	}
	return s
}

func (s kindSet) String() string {
	if s == allKinds {
		return "{any kind}"
	}
	var out []string
	for i, k := range kindNames {
		if s&(1<<uint(i)) != 0 {
			out = append(out, k)
		}
	}
	return "{" + strings.Join(out, ",") + "}"
}

// subjectKey identifies a reflect value across re-loads and .Type() projections.
func subjectKey(v ssa.Value) any {
	for {
		switch x := v.(type) {
		case *ssa.UnOp:
			if x.Op == token.MUL {
				if c := cellOf(x.X); c != nil {
					// a spilled local: every load denotes the same variable (single-assignment use in this repo)
					if len(storesToCell(c)) <= 1 {
						return c
					}
				}
			}
			return v
		case *ssa.Call:
			// rv.Type() has the same Kind as rv
			if n := calleeName(&x.Call); n == "(reflect.Value).Type" && len(x.Call.Args) == 1 {
				v = x.Call.Args[0]
				continue
			}
			if n := calleeName(&x.Call); n == "reflect.Type.Key" || n == "reflect.Type.Elem" {
				// no CSE in go/ssa: t.Key() evaluated twice denotes the same type
				return projKey{n, subjectKey(x.Call.Value)}
			}
			return v
		case *ssa.ChangeType:
			v = x.X
			continue
		default:
			return v
		}
	}
}

type projKey struct {
	op    string
	inner any
}

func isReflectKind(t types.Type) bool { return isNamed(t, "reflect", "Kind") }

// kindCallSubject: if v is `s.Kind()` returns the subject key of s.
func kindCallSubject(v ssa.Value) (any, bool) {
	c, ok := v.(*ssa.Call)
	if !ok {
		return nil, false
	}
	n := calleeName(&c.Call)
	if n == "(reflect.Value).Kind" && len(c.Call.Args) == 1 {
		return subjectKey(c.Call.Args[0]), true
	}
	if n == "reflect.Type.Kind" {
		return subjectKey(c.Call.Value), true
	}
	return nil, false
}

func kindConst(v ssa.Value) (uint, bool) {
	if !isReflectKind(v.Type()) {
		return 0, false
	}
	if i, ok := constInt(v); ok && i >= 0 && i < 27 {
		return uint(i), true
	}
	return 0, false
}

// refineKind applies condition c (taken with truth value `want`) to set s for the subject.
func refineKind(c ssa.Value, want bool, subj any, s kindSet) kindSet {
	c, flip := stripNot(c)
	if flip {
		want = !want
	}
	// kindSet[v.Kind()] (map[reflect.Kind]bool) and `_, ok := kindSet[v.Kind()]`: membership in a package-level set
	// written as a literal of kind constants, which nothing writes to after the package initialiser
	{
		var lk *ssa.Lookup
		if l, ok := c.(*ssa.Lookup); ok && !l.CommaOk {
			lk = l
		}
		if ex, ok := c.(*ssa.Extract); ok && ex.Index == 1 {
			if l, ok := ex.Tuple.(*ssa.Lookup); ok && l.CommaOk {
				lk = l
			}
		}
		if lk != nil {
			if sk, ok := kindCallSubject(lk.Index); ok && sk == subj && readOnlyGlobalMap(lk.X) {
				if ks, ok := backingKindConsts(lk.X, 0); ok {
					var m kindSet
					for _, k := range ks {
						m |= 1 << k
					}
					if want {
						return s & m
					}
					return s &^ m
				}
			}
			return s
		}
	}
	// slices.Contains(tableOfKinds, v.Kind()) with a table backed by a literal of kind constants
	if cl, isCall := c.(*ssa.Call); isCall {
		if n := calleeName(&cl.Call); (strings.HasPrefix(n, "slices.Contains[") || n == "slices.Contains") && len(cl.Call.Args) == 2 {
			if sk, ok := kindCallSubject(cl.Call.Args[1]); ok && sk == subj {
				if ks, ok := backingKindConsts(cl.Call.Args[0], 0); ok {
					var m kindSet
					for _, k := range ks {
						m |= 1 << k
					}
					if want {
						return s & m
					}
					return s &^ m
				}
			}
		}
		return s
	}
	b, ok := c.(*ssa.BinOp)
	if !ok {
		return s
	}
	x, y, op := b.X, b.Y, b.Op
	if _, isC := kindConst(x); isC {
		x, y = y, x
		switch op {
		case token.LSS:
			op = token.GTR
		case token.GTR:
			op = token.LSS
		case token.LEQ:
			op = token.GEQ
		case token.GEQ:
			op = token.LEQ
		}
	}
	k, isC := kindConst(y)
	if !isC {
		return s
	}
	sk, ok := kindCallSubject(x)
	if !ok || sk != subj {
		return s
	}
	var m kindSet
	for i := uint(0); i < 27; i++ {
		var holds bool
		switch op {
		case token.EQL:
			holds = i == k
		case token.NEQ:
			holds = i != k
		case token.LSS:
			holds = i < k
		case token.LEQ:
			holds = i <= k
		case token.GTR:
			holds = i > k
		case token.GEQ:
			holds = i >= k
		default:
			return s
		}
		if holds == want {
			m |= 1 << i
		}
	}
	return s & m
}

// kindFacts computes, for subject subj in fn, the possible kinds at the entry of every block,
// starting from `entry` at the function entry.
func kindFacts(fn *ssa.Function, subj any, entry kindSet) map[*ssa.BasicBlock]kindSet {
	in := map[*ssa.BasicBlock]kindSet{}
	if len(fn.Blocks) == 0 {
		return in
	}
	reached := map[*ssa.BasicBlock]bool{fn.Blocks[0]: true}
	in[fn.Blocks[0]] = entry
	work := []*ssa.BasicBlock{fn.Blocks[0]}
	for len(work) > 0 {
		b := work[0]
		work = work[1:]
		cur := in[b]
		var ifi *ssa.If
		if n := len(b.Instrs); n > 0 {
			ifi, _ = b.Instrs[n-1].(*ssa.If)
		}
		for si, s := range b.Succs {
			out := cur
			if ifi != nil && len(b.Succs) == 2 && b.Succs[0] != b.Succs[1] {
				out = refineKind(ifi.Cond, si == 0, subj, cur)
			}
			if ph, ok := subj.(*ssa.Phi); ok && ph.Block() == s {
				out = allKinds // the phi takes a new value on entry to its block
			}
			nv := out
			if reached[s] {
				nv = in[s] | out
			}
			if !reached[s] || nv != in[s] {
				reached[s] = true
				in[s] = nv
				work = append(work, s)
			}
		}
	}
	return in
}

// backingKindConsts: the reflect.Kind constants of a slice literal (local, or a package-level variable initialised once).
func backingKindConsts(base ssa.Value, depth int) ([]uint, bool) {
	if depth > 4 {
		return nil, false
	}
	collect := func(arr ssa.Value, fn *ssa.Function) ([]uint, bool) {
		var out []uint
		ok := true
		eachInstr(fn, func(in ssa.Instruction) {
			ia, isIA := in.(*ssa.IndexAddr)
			if !isIA || ia.X != arr || ia.Referrers() == nil {
				return
			}
			for _, u := range *ia.Referrers() {
				st, isSt := u.(*ssa.Store)
				if !isSt || st.Addr != ssa.Value(ia) {
					continue
				}
				if k, isC := kindConst(st.Val); isC {
					out = append(out, k)
				} else {
					ok = false
				}
			}
		})
		return out, ok && len(out) > 0
	}
	switch b := base.(type) {
	case *ssa.Slice:
		return backingKindConsts(b.X, depth+1)
	case *ssa.Alloc:
		return collect(b, b.Parent())
	case *ssa.MakeMap:
		// a set of kinds written as a map literal: map[reflect.Kind]bool{reflect.Int: true, …} / map[reflect.Kind]struct{}{…}
		var out []uint
		ok := true
		if b.Referrers() != nil {
			for _, r := range *b.Referrers() {
				mu, isMU := r.(*ssa.MapUpdate)
				if !isMU {
					continue
				}
				k, isC := kindConst(mu.Key)
				if !isC {
					ok = false
					continue
				}
				if bv, isB := mu.Value.(*ssa.Const); isB && bv.Value != nil && bv.Value.Kind() == constant.Bool && !constant.BoolVal(bv.Value) {
					continue // an explicit false: not a member
				}
				out = append(out, k)
			}
		}
		return out, ok && len(out) > 0
	case *ssa.UnOp:
		if b.Op != token.MUL {
			return nil, false
		}
		g, ok := b.X.(*ssa.Global)
		if !ok {
			return nil, false
		}
		init := g.Pkg.Func("init")
		if init == nil {
			return nil, false
		}
		var val ssa.Value
		n := 0
		eachInstr(init, func(in ssa.Instruction) {
			if st, ok := in.(*ssa.Store); ok && st.Addr == ssa.Value(g) {
				val = st.Val
				n++
			}
		})
		if n != 1 {
			return nil, false
		}
		return backingKindConsts(val, depth+1)
	}
	return nil, false
}

// readOnlyGlobalMap: v is a load of a package-level map variable that is assigned once (in the package
// initialiser) and that no function of the module updates or deletes from.
func readOnlyGlobalMap(v ssa.Value) bool {
	ld, ok := v.(*ssa.UnOp)
	if !ok || ld.Op != token.MUL {
		return false
	}
	g, ok := ld.X.(*ssa.Global)
	if !ok || theProg == nil {
		return false
	}
	clean := true
	for _, fn := range theProg.FuncsAndInits() {
		eachInstr(fn, func(in ssa.Instruction) {
			switch x := in.(type) {
			case *ssa.Store:
				if x.Addr == ssa.Value(g) && fn.Name() != "init" {
					clean = false
				}
			case *ssa.MapUpdate:
				if l, ok := x.Map.(*ssa.UnOp); ok && l.X == ssa.Value(g) {
					clean = false
				}
			case ssa.CallInstruction:
				if b, ok := x.Common().Value.(*ssa.Builtin); ok && (b.Name() == "delete" || b.Name() == "clear") && len(x.Common().Args) > 0 {
					if l, ok := x.Common().Args[0].(*ssa.UnOp); ok && l.X == ssa.Value(g) {
						clean = false
					}
				}
			}
		})
	}
	return clean
}
