package main

import (
	"fmt"
	"go/token"
	"go/types"
	"strings"

	"golang.org/x/tools/go/ssa"
)

// Rules written after the eighth round of seeded changes (o/p).

// mayHeldAtReturns: for every return of fn, the locks that may still be held there (taken on some path and not
// released on it), leaving out those whose release is deferred.
func mayHeldAtReturns(fn *ssa.Function) map[*ssa.Return][]lockKey {
	if len(fn.Blocks) == 0 {
		return nil
	}
	deferred := map[lockKey]bool{}
	eachInstr(fn, func(in ssa.Instruction) {
		if d, ok := in.(*ssa.Defer); ok {
			if k, op, ok := mutexOp(&d.Call); ok && (op == "unlock" || op == "runlock") {
				deferred[k] = true
			}
			// defer func() { mu.Unlock() }()
			if f := funcValue(d.Call.Value); f != nil {
				eachInstr(f, func(in2 ssa.Instruction) {
					if cl, ok := in2.(*ssa.Call); ok {
						if k, op, ok := mutexOp(&cl.Call); ok && (op == "unlock" || op == "runlock") {
							deferred[k] = true
							// (the closure sees the mutex through a captured variable: its path differs; release all)
							deferred["*"] = true
						}
					}
				})
			}
		}
	})
	in := map[*ssa.BasicBlock]map[lockKey]bool{fn.Blocks[0]: {}}
	work := []*ssa.BasicBlock{fn.Blocks[0]}
	transfer := func(s map[lockKey]bool, instr ssa.Instruction) map[lockKey]bool {
		call, ok := instr.(*ssa.Call)
		if !ok {
			return s
		}
		k, op, ok := mutexOp(&call.Call)
		if !ok {
			return s
		}
		n := map[lockKey]bool{}
		for x := range s {
			n[x] = true
		}
		switch op {
		case "lock", "rlock":
			n[k] = true
		default:
			delete(n, k)
		}
		return n
	}
	for len(work) > 0 {
		b := work[0]
		work = work[1:]
		s := in[b]
		for _, instr := range b.Instrs {
			s = transfer(s, instr)
		}
		for _, succ := range b.Succs {
			old, seen := in[succ]
			merged := map[lockKey]bool{}
			for x := range old {
				merged[x] = true
			}
			changed := !seen
			for x := range s {
				if !merged[x] {
					merged[x] = true
					changed = true
				}
			}
			if changed {
				in[succ] = merged
				work = append(work, succ)
			}
		}
	}
	out := map[*ssa.Return][]lockKey{}
	for _, b := range fn.Blocks {
		s, ok := in[b]
		if !ok {
			continue
		}
		for _, instr := range b.Instrs {
			if r, isRet := instr.(*ssa.Return); isRet {
				for k := range s {
					if !deferred[k] && !deferred["*"] {
						out[r] = append(out[r], k)
					}
				}
			}
			s = transfer(s, instr)
		}
	}
	return out
}

// mixedCutset: a constant cutset of strings.Trim / TrimLeft / TrimRight whose characters do not belong to one class
// (white space, quotes, digits, brackets, or a single repeated character): it spells a prefix or a word.
func mixedCutset(cut string) bool {
	rs := []rune(cut)
	if len(rs) < 2 {
		return false
	}
	class := func(r rune) int {
		switch {
		case r == ' ' || r == '\t' || r == '\n' || r == '\r' || r == '\f' || r == '\v':
			return 1
		case r == '"' || r == '\'' || r == '`':
			return 2
		case r >= '0' && r <= '9':
			return 3
		case strings.ContainsRune("{}[]()<>", r):
			return 4
		case (r >= 'a' && r <= 'z') || (r >= 'A' && r <= 'Z'):
			return 5
		}
		return 100 + int(r)
	}
	first := class(rs[0])
	for _, r := range rs[1:] {
		if class(r) != first {
			return true
		}
	}
	return first == 5 // a run of letters is a word
}

func (p *Prog) cutsetRule(c *Ctx, what string, inScope func(fn *ssa.Function) bool, consequence string) {
	n, fns := 0, 0
	for _, fn := range p.liveFuncs() {
		if !inScope(fn) {
			continue
		}
		fns++
		for _, site := range callsIn(fn) {
			nm := calleeName(site.Common())
			switch nm {
			case "strings.Trim", "strings.TrimLeft", "strings.TrimRight", "bytes.Trim", "bytes.TrimLeft", "bytes.TrimRight":
			default:
				continue
			}
			cut, ok := constString(site.Common().Args[1])
			if !ok {
				continue
			}
			n++
			c.check(!mixedCutset(cut), fmt.Sprintf("%s: %s(…, %q)#%d trims a set of like characters", shortName(fn), nm, cut, n), p.instrPos(site), "the cutset is one class of characters", fmt.Sprintf("%s is given the cutset %q: the function removes every leading / trailing character that occurs in that *set*, it does not remove the prefix %q — %s", nm, cut, cut, consequence))
		}
	}
	c.ok(what+": cutsets examined", "-", fmt.Sprintf("%d functions, %d Trim / TrimLeft / TrimRight calls with a constant cutset", fns, n))
}

func init() {
	register(&Rule{
		ID: "C09.R10", Props: []string{"C09", "C11", "C15"}, Min: 5,
		Doc: "every lock is released on every way out: for each function of the module that takes a sync.Mutex / RWMutex lock, no return is reachable with the lock still held (a may-held forward analysis over the control-flow graph; a deferred release counts for all returns). A read lock that an early return forgets is invisible to readers — cache hits keep being served — until the next writer (the first load or a reload of any template) waits for it forever, and every later render queues behind that writer",
		Run: func(p *Prog, c *Ctx) {
			n := 0
			for _, fn := range p.liveFuncs() {
				locks := false
				for _, site := range callsIn(fn) {
					if _, op, ok := mutexOp(site.Common()); ok && (op == "lock" || op == "rlock") {
						locks = true
					}
				}
				if !locks {
					continue
				}
				n++
				held := mayHeldAtReturns(fn)
				if len(held) == 0 {
					c.ok(shortName(fn)+": locks are released on every way out", p.pos(fn.Pos()), "no return is reachable with a lock held")
					continue
				}
				for r, keys := range held {
					c.fail(shortName(fn)+": locks are released on every way out", p.instrPos(r), fmt.Sprintf("this return can be reached with %s still locked: the lock is never released — readers go on, the next writer blocks for good and every later render queues behind it", keys[0]))
					break
				}
			}
			if n == 0 {
				undecided("no function of the module takes a lock")
			}
		},
	})

	register(&Rule{
		ID: "C02.R15", Props: []string{"C02", "C13"}, Min: 1,
		Doc: "root data keeps its types: what the struct → map conversion (structToMap, behind toMapData and Fill) puts into the root scope is the field's own value (Interface()) or the converted nested struct — never a value passed through reflect.Value.Convert. A field of a named type with a String() method (time.Duration, an enum) converted to its underlying kind prints as its raw number, not as its string form",
		Run: func(p *Prog, c *Ctx) {
			n := 0
			for _, name := range []string{"reflect.structToMap", "reflect.PopulateStructFields"} {
				fn := p.MustFn(name)
				eachInstr(fn, func(in ssa.Instruction) {
					mu, ok := in.(*ssa.MapUpdate)
					if !ok {
						return
					}
					n++
					converted := false
					var walk func(v ssa.Value, d int)
					seen := map[ssa.Value]bool{}
					walk = func(v ssa.Value, d int) {
						if v == nil || seen[v] || d > 6 {
							return
						}
						seen[v] = true
						for _, o := range append(p.origins(v, OriginOpts{}), v) {
							if cl, ok := o.(*ssa.Call); ok {
								if calleeName(&cl.Call) == "(reflect.Value).Convert" {
									converted = true
								}
								if calleeName(&cl.Call) == "(reflect.Value).Interface" {
									walk(cl.Call.Args[0], d+1)
								}
							}
						}
					}
					walk(mu.Value, 0)
					c.check(!converted, fmt.Sprintf("%s: entry#%d holds the field's own value", name, n), p.instrPos(mu), "Interface() of the field, or the converted nested struct", "the value stored for a field went through reflect.Value.Convert: a named type loses its methods — a time.Duration prints as 1500000000 instead of 1.5s, an enum with String() as its number")
				})
			}
			if n == 0 {
				undecided("the struct → map conversion stores nothing into a map")
			}
		},
	})

	register(&Rule{
		ID: "C05.R15", Props: []string{"C05"}, Min: 1,
		Doc: "a component receives exactly its props: from the map of evaluated attributes the include branch of evalTemplate removes entries under constant keys only (`include` itself) — a loop that deletes every entry whose *name* fails some test decides by spelling which props exist: kebab-case props (`user-name`, `max-items`) never reach the component, and `:required=\"user-name\"` fails although the prop was passed",
		Run: func(p *Prog, c *Ctx) {
			fn := p.MustFn("(*vuego.Vue).evalTemplate")
			n := 0
			for _, site := range callsIn(fn) {
				if calleeName(site.Common()) != "builtin.delete" {
					continue
				}
				args := site.Common().Args
				fromAttrs := false
				for _, o := range append(p.origins(args[0], OriginOpts{}), args[0]) {
					if ex, ok := o.(*ssa.Extract); ok {
						if cl, ok := ex.Tuple.(*ssa.Call); ok && calleeName(&cl.Call) == "(*vuego.Vue).evalAttributes" {
							fromAttrs = true
						}
					}
				}
				if !fromAttrs {
					continue
				}
				n++
				_, isConst := constString(args[1])
				c.check(isConst, fmt.Sprintf("evalTemplate: delete#%d from the props removes a fixed key", n), p.instrPos(site), "constant key", "an entry of the evaluated attributes is deleted under a computed key: which props reach the component depends on how their names are spelled — a prop with a hyphen (user-name, data-id) is dropped silently and a :required that names it fails")
			}
			if n == 0 {
				c.ok("evalTemplate: nothing is deleted from the props", p.pos(fn.Pos()), "no delete on the evaluated attributes")
			}
		},
	})

	register(&Rule{
		ID: "C06.R14", Props: []string{"C06"}, Min: 1,
		Doc: "the names of a destructuring pattern are trimmed of all white space: destructuredSlotProps either trims each name with a white-space trimmer (TrimSpace, Fields, unicode.IsSpace, the HTML-space helpers) or, where it separates the names itself, treats tab and line feed like the blank — `v-slot=\"{ item,\\n  index }\"` written over two lines otherwise binds a prop called `\\n  index`, and `{{ index }}` in the slot content is empty in every iteration",
		Run: func(p *Prog, c *Ctx) {
			fn := p.MustFn("vuego.destructuredSlotProps")
			trims := false
			walkFuncTree(fn, func(f *ssa.Function) {
				for _, site := range callsIn(f) {
					switch calleeName(site.Common()) {
					case "strings.TrimSpace", "strings.Fields", "unicode.IsSpace", "helpers.TrimHTMLSpace", "helpers.IsHTMLSpace", "strings.FieldsSeq":
						// (trimming the whole pattern before it is taken apart does not trim the names)
						if args := site.Common().Args; len(args) == 1 && len(fn.Params) > 0 && args[0] == ssa.Value(fn.Params[0]) {
							continue
						}
						trims = true
					}
				}
				eachInstr(f, func(in ssa.Instruction) {
					// unicode.IsSpace handed over as a function value
					if mi, ok := in.(*ssa.ChangeType); ok {
						if g := funcValue(mi.X); g != nil && g.String() == "unicode.IsSpace" {
							trims = true
						}
					}
				})
				for _, site := range callsIn(f) {
					for _, a := range site.Common().Args {
						if g := funcValue(a); g != nil && g.String() == "unicode.IsSpace" {
							trims = true
						}
					}
				}
			})
			have := comparedChars(fn)
			c.check(trims || (have['\t'] && have['\n']), "destructuredSlotProps: names are separated by any white space", p.pos(fn.Pos()), "white-space trimmer, or tab and line feed are known", "the names of `{ a, b }` are cut out with a separator test that knows the blank but neither tab nor line feed, and are not trimmed: a pattern written over several lines binds props under names that contain the line break, so the props the content asks for stay empty")
		},
	})

	register(&Rule{
		ID: "C06.R15", Props: []string{"C06"}, Min: 1,
		Doc: "slot names are cut off by prefix, not by character set: in the functions that read slot directives (`v-slot:name`, `#name`) no strings.Trim / TrimLeft / TrimRight is given a constant cutset that spells a word or a prefix. TrimLeft(key, \"v-slot:#\") also eats the leading v, s, l, o, t and - of the *name*: `#title` is registered as `itle`, the slot shows its fallback and the supplied content is never rendered",
		Run: func(p *Prog, c *Ctx) {
			p.cutsetRule(c, "slot directive readers", func(fn *ssa.Function) bool {
				n := strings.ToLower(shortName(rootFunc(fn)))
				return strings.Contains(n, "slot")
			}, "the leading letters of a slot name that occur in the set are removed with the directive, the content is registered under a wrong name and the slot shows its fallback")
		},
	})

	register(&Rule{
		ID: "C18.R11", Props: []string{"C18"}, Min: 1,
		Doc: "a path is not trimmed by character set: in the overlay filesystem no strings.Trim / TrimLeft / TrimRight is given a constant cutset of unlike characters. TrimLeft(name, \"./\") strips every leading dot and slash: `.nav.vuego` is looked up as `nav.vuego` and `.partials` as `partials` — content, metadata and listings come from another path, or a path present in no layer stops reporting not-exist",
		Run: func(p *Prog, c *Ctx) {
			p.cutsetRule(c, "overlay filesystem", func(fn *ssa.Function) bool {
				r := rootFunc(fn)
				if r.Signature.Recv() != nil && strings.Contains(typeShort(r.Signature.Recv().Type()), "OverlayFS") {
					return true
				}
				return strings.Contains(shortName(r), "OverlayFS")
			}, "a name whose first segment begins with a dot is served from the path without the dot")
		},
	})

	register(&Rule{
		ID: "C08.R15", Props: []string{"C08", "C10", "C09"}, Min: 1,
		Doc: "a template's configuration methods write variables only through its own stack: what a method of the long-lived template object (Assign, Fill, Load, …) reads back from the stack — Lookup, Resolve, GetMap results, and what it takes out of an EnvMap() — is never written through. Those values are shared: Stack.Copy and Fill copy the top level only, so a nested map is the very object the parent, every sibling and the engine's configuration hold; Assign(\"site.title\", v) that stores into the looked-up `site` map rewrites theme.yml's section for the whole tree",
		Run: func(p *Prog, c *Ctx) {
			t := newROTaint(p)
			seeds := 0
			for _, fn := range p.liveFuncs() {
				r := rootFunc(fn)
				if r.Signature.Recv() == nil || !strings.HasSuffix(typeShort(r.Signature.Recv().Type()), "vuego.template") {
					continue
				}
				for _, site := range callsIn(fn) {
					cv, ok := site.(*ssa.Call)
					if !ok {
						continue
					}
					switch calleeName(site.Common()) {
					case "(*vuego.Stack).Lookup", "(*vuego.Stack).Resolve", "(*vuego.Stack).GetMap", "(*vuego.Stack).GetSlice":
						if cv.Referrers() != nil {
							for _, rr := range *cv.Referrers() {
								if ex, ok := rr.(*ssa.Extract); ok && ex.Index == 0 {
									seeds++
									t.seed(ex, "read back from the template's stack at "+p.instrPos(site))
								}
							}
						}
					case "(*vuego.Stack).EnvMap":
						seeds++
						t.seedHolder(cv, "the merged environment taken at "+p.instrPos(site))
					}
				}
			}
			t.run()
			c.ok("template methods: values read back from the stack are followed", "-", fmt.Sprintf("%d reads followed to all uses", seeds))
			for _, vi := range t.viol {
				c.fail(fmt.Sprintf("%s: %s through a value read back from the stack", shortName(vi.at.Parent()), vi.what), p.instrPos(vi.at), vi.what+" on a value the template read back from its stack: "+shortWhy(vi.why)+" — the nested value is shared with the parent template, its siblings and the engine's configuration, so one template's assignment changes what all of them see")
			}
		},
	})

	register(&Rule{
		ID: "C11.R16", Props: []string{"C11", "C12"}, Min: 2,
		Doc: "a result is used only after its error was looked at: where the module calls a function of another package that returns (pointer, error) — the HTML and Markdown parsers above all — the pointer is dereferenced (a method called on it, a field read, ranged over through a method) only on ways on which the error was compared with nil and found nil. html.ParseWithOptions returns a nil document with its error; `for n := range doc.ChildNodes()` before the check is a nil-pointer panic in every render entry for a document the parser rejects (more than 512 nested elements)",
		Run: func(p *Prog, c *Ctx) {
			n := 0
			for _, fn := range p.liveFuncs() {
				for _, site := range callsIn(fn) {
					cv, ok := site.(*ssa.Call)
					if !ok {
						continue
					}
					callee := cv.Call.StaticCallee()
					if callee == nil || inModule(callee) {
						continue
					}
					res := cv.Call.Signature().Results()
					if res.Len() != 2 || !isErrorType(res.At(1).Type()) {
						continue
					}
					if _, isPtr := res.At(0).Type().Underlying().(*types.Pointer); !isPtr {
						continue
					}
					if pk := callee.Pkg; pk == nil || !(strings.Contains(pk.Pkg.Path(), "golang.org/x/net/html") || strings.Contains(pk.Pkg.Path(), "goldmark") || strings.Contains(pk.Pkg.Path(), "yaml")) {
						continue
					}
					var val, errv *ssa.Extract
					if cv.Referrers() != nil {
						for _, r := range *cv.Referrers() {
							if ex, ok := r.(*ssa.Extract); ok {
								if ex.Index == 0 {
									val = ex
								} else {
									errv = ex
								}
							}
						}
					}
					if val == nil {
						continue
					}
					n++
					bad := ""
					var badAt ssa.Instruction
					if val.Referrers() != nil {
						for _, u := range *val.Referrers() {
							deref := false
							switch x := u.(type) {
							case *ssa.FieldAddr:
								deref = x.X == ssa.Value(val)
							case ssa.CallInstruction:
								cc := x.Common()
								if !cc.IsInvoke() && len(cc.Args) > 0 && cc.Args[0] == ssa.Value(val) && cc.Signature().Recv() != nil {
									deref = true
								}
							case *ssa.UnOp:
								deref = x.Op == token.MUL && x.X == ssa.Value(val)
							}
							if !deref {
								continue
							}
							checked := errv != nil && guardedBy(u.Block(), func(cnd ssa.Value, want bool) bool {
								b, ok := cnd.(*ssa.BinOp)
								if !ok || !(isNilConst(b.X) || isNilConst(b.Y)) {
									return false
								}
								other := b.X
								if isNilConst(b.X) {
									other = b.Y
								}
								if other != ssa.Value(errv) && !sameValue(other, errv) {
									// the pointer itself tested for nil is as good
									if other != ssa.Value(val) {
										return false
									}
									return (b.Op == token.NEQ && want) || (b.Op == token.EQL && !want)
								}
								return (b.Op == token.EQL && want) || (b.Op == token.NEQ && !want)
							})
							if !checked {
								bad = "the result is dereferenced on a way on which the error was not looked at"
								badAt = u
							}
						}
					}
					pos := p.instrPos(site)
					if badAt != nil {
						pos = p.instrPos(badAt)
					}
					c.check(bad == "", fmt.Sprintf("%s: result of %s#%d is used after the error check", shortName(fn), calleeName(&cv.Call), n), pos, "every dereference is on the error-free branch", bad+": when "+calleeName(&cv.Call)+" fails it returns a nil pointer with the error, and the dereference panics before the error can be returned")
				}
			}
		},
	})

	register(&Rule{
		ID: "C12.R6", Props: []string{"C12", "C09"}, Min: 1,
		Doc: "nothing writes to the destination after the render call has returned: no function that holds the destination writer starts a goroutine that is handed the writer (as an argument, or captured by the closure that is started). A render moved into a goroutine so that the call can return on ctx.Done() goes on evaluating and then writes the whole document to a writer whose owner was told the render had failed",
		Run: func(p *Prog, c *Ctx) {
			d := p.destTaint()
			holders := map[*ssa.Function]bool{}
			for k := range d {
				holders[k.fn] = true
			}
			n := 0
			for _, fn := range sortedFuncs(holders) {
				if p.Dropped[fn] {
					continue
				}
				var writerParams []*ssa.Parameter
				for i, prm := range fn.Params {
					if d[paramKey{fn, i}] {
						writerParams = append(writerParams, prm)
					}
				}
				eachInstr(fn, func(in ssa.Instruction) {
					g, ok := in.(*ssa.Go)
					if !ok {
						return
					}
					n++
					gets := false
					check := func(v ssa.Value) {
						for _, prm := range writerParams {
							if p.valueFromParam(v, prm) {
								gets = true
							}
						}
					}
					for _, a := range g.Call.Args {
						check(a)
					}
					if mc, ok := g.Call.Value.(*ssa.MakeClosure); ok {
						for _, b := range mc.Bindings {
							check(b)
							// captured by reference: the binding is the address of the parameter's cell
							if al, ok := b.(*ssa.Alloc); ok {
								for _, st := range storesToCell(al) {
									check(st.Val)
								}
							}
						}
					}
					c.check(!gets, fmt.Sprintf("%s: goroutine#%d does not get the destination", shortName(fn), n), p.instrPos(g), "the writer stays with the calling goroutine", "a goroutine started here is handed the destination writer: when the function returns first (cancellation, a timeout) the goroutine still writes the document — an error was returned and the writer receives output, after the call, concurrently with its owner")
				})
			}
			c.ok("writer-holding functions start no goroutine with the writer", "-", fmt.Sprintf("%d functions hold the destination, %d go statements examined", len(holders), n))
		},
	})

	register(&Rule{
		ID: "C13.R24", Props: []string{"C13", "C03", "C04"}, Min: 1,
		Doc: "v-if has no reading of its own: evalCondition, the entry v-if uses, returns what the shared condition evaluation (evalConditionExpr) returned and nothing else — a fast path that resolves `path-shaped` text on the stack reads `n-i` as a variable name and `names[1]` as a string key, where v-else-if and v-show (and the evaluator) read a subtraction and an index: the same condition is false in v-if and true in v-else-if",
		Run: func(p *Prog, c *Ctx) {
			fn := p.Fn("(*vuego.Vue).evalCondition")
			if fn == nil || p.Dropped[fn] {
				// the wrapper is gone: v-if calls the shared evaluation itself
				direct := false
				for _, host := range []string{"(*vuego.Vue).evalElseIfChain", "(*vuego.Vue).evaluate"} {
					if h := p.Fn(host); h != nil {
						for _, site := range callsIn(h) {
							if calleeName(site.Common()) == "(*vuego.Vue).evalConditionExpr" {
								direct = true
							}
						}
					}
				}
				if !direct {
					undecided("neither evalCondition nor a direct call of evalConditionExpr from the chain evaluator was found")
				}
				c.ok("v-if calls the shared condition evaluation directly", "-", "no wrapper of its own")
				return
			}
			n := 0
			for _, r := range returnsOf(fn) {
				n++
				okAll := true
				for _, o := range append(p.origins(r.Results[0], OriginOpts{}), r.Results[0]) {
					switch x := o.(type) {
					case *ssa.Extract:
						if cl, ok := x.Tuple.(*ssa.Call); !ok || calleeName(&cl.Call) != "(*vuego.Vue).evalConditionExpr" {
							okAll = false
						}
					case *ssa.Phi:
					default:
						okAll = false
					}
				}
				c.check(okAll, fmt.Sprintf("evalCondition: return#%d hands back the shared evaluation's answer", n), p.instrPos(r), "result of evalConditionExpr", "evalCondition decides a condition itself on some path (a stack lookup, a constant) instead of returning what evalConditionExpr returns: v-if then reads a condition differently from v-else-if and v-show")
			}
		},
	})

	register(&Rule{
		ID: "C13.R25", Props: []string{"C13", "C03"}, Min: 1,
		Doc: "an escaped quote does not end a string literal: the scanner that rewrites === / !== outside string literals (NormalizeComparisonOperators) looks for the backslash — it compares the characters it scans with `\\\\` — so that `'it\\\\'s === ok'` stays one literal. A scanner that jumps to the next quote character takes the rest of that literal for code and rewrites the operator inside it: the text of a string changes",
		Run: func(p *Prog, c *Ctx) {
			fn := p.MustFn("helpers.NormalizeComparisonOperators")
			have := comparedChars(fn)
			c.check(have['\\'], "NormalizeComparisonOperators: knows the backslash", p.pos(fn.Pos()), "the scanned character is compared with the backslash", "the operator rewriter never looks for a backslash: the escaped quote in 'it\\'s === ok' ends the literal early, the rest is scanned as code and `===` inside the string becomes `==`")
		},
	})

	register(&Rule{
		ID: "C14.R17", Props: []string{"C14"}, Min: 1,
		Doc: "custom properties are case-sensitive: where the style merge decides that two declarations are the same property (setStyleDecl, the helper behind :style merging and v-show), a case-insensitive comparison (EqualFold, a lower-cased copy) is made only under a test that the name is not a custom property (`--…`). `--Accent` and `--accent` are two properties; folded together, the bound one replaces the static one and one of the two variables disappears",
		Run: func(p *Prog, c *Ctx) {
			n := 0
			for _, name := range []string{"vuego.setStyleDecl", "(*vuego.Vue).mergeStyles"} {
				fn := p.MustFn(name)
				for _, site := range callsIn(fn) {
					nm := calleeName(site.Common())
					if nm != "strings.EqualFold" && nm != "strings.ToLower" && nm != "strings.ToUpper" {
						continue
					}
					n++
					guarded := false
					for _, g := range controllingIfs(site) {
						for _, leaf := range condLeaves(g.If.Cond) {
							if cl, ok := leaf.(*ssa.Call); ok && calleeName(&cl.Call) == "strings.HasPrefix" && len(cl.Call.Args) == 2 {
								if s, ok := constString(cl.Call.Args[1]); ok && strings.HasPrefix(s, "--") {
									guarded = true
								}
							}
						}
					}
					c.check(guarded, fmt.Sprintf("%s: case folding#%d spares custom properties", name, n), p.instrPos(site), "under a test for the `--` prefix", "declaration names are compared without regard to letter case, custom properties included: `--Accent` and `--accent` count as one property, so a bound `--accent` overwrites the static `--Accent` and its own declaration is gone")
				}
			}
			if n == 0 {
				c.ok("style merge: declaration names are compared exactly", "-", "no case folding in setStyleDecl / mergeStyles")
			}
		},
	})

	register(&Rule{
		ID: "C14.R18", Props: []string{"C14", "C02"}, Min: 1,
		Doc: "two attributes are the same attribute only if their namespaces agree: where the serialiser's attribute writer (renderAttrs and the helpers it calls) compares the name of one attribute with the name of another to decide whether to write it, it compares their Namespace too — `xlink:href` and `href`, `xml:lang` and `lang` on SVG / MathML elements share a Key and are different attributes; a de-duplication by Key alone drops a static attribute the template wrote",
		Run: func(p *Prog, c *Ctx) {
			fn := p.MustFn("vuego.renderAttrs")
			fns := []*ssa.Function{fn}
			for _, site := range callsIn(fn) {
				if callee := site.Common().StaticCallee(); callee != nil && inModule(callee) && len(callee.Blocks) > 0 {
					for _, prm := range callee.Params {
						if sl, ok := prm.Type().Underlying().(*types.Slice); ok && isNamed(sl.Elem(), "golang.org/x/net/html", "Attribute") {
							fns = append(fns, callee)
						}
					}
				}
			}
			fromKey := func(v ssa.Value) bool {
				found := false
				var walk func(v ssa.Value, d int)
				seen := map[ssa.Value]bool{}
				walk = func(v ssa.Value, d int) {
					if v == nil || seen[v] || d > 6 {
						return
					}
					seen[v] = true
					for _, o := range append(p.origins(v, OriginOpts{}), v) {
						switch x := o.(type) {
						case *ssa.Field:
							if isNamed(x.X.Type(), "golang.org/x/net/html", "Attribute") && fieldNameStruct(x.X.Type(), x.Field) == "Key" {
								found = true
							}
						case *ssa.UnOp:
							if f := loadedField(x); f != nil && f.Name() == "Key" && f.Pkg() != nil && f.Pkg().Path() == "golang.org/x/net/html" {
								found = true
							}
						case *ssa.Slice:
							walk(x.X, d+1)
						case *ssa.Parameter:
							// a name handed to a helper: where does it come from at the call sites?
							for _, cs := range p.Callers(x.Parent()) {
								for i, q := range x.Parent().Params {
									if q == x && i < len(cs.Common().Args) {
										walk(cs.Common().Args[i], d+1)
									}
								}
							}
						}
					}
				}
				walk(v, 0)
				return found
			}
			n := 0
			for _, f := range fns {
				cmpNS := false
				eachInstr(f, func(in ssa.Instruction) {
					if b, ok := in.(*ssa.BinOp); ok && (b.Op == token.EQL || b.Op == token.NEQ) {
						for _, v := range []ssa.Value{b.X, b.Y} {
							if fl, ok := v.(*ssa.Field); ok && fieldNameStruct(fl.X.Type(), fl.Field) == "Namespace" {
								if _, isConst := b.Y.(*ssa.Const); !isConst {
									cmpNS = true
								}
							}
							if f := loadedField(v); f != nil && f.Name() == "Namespace" {
								if _, isConst := b.Y.(*ssa.Const); !isConst {
									cmpNS = true
								}
							}
						}
					}
				})
				eachInstr(f, func(in ssa.Instruction) {
					b, ok := in.(*ssa.BinOp)
					if !ok || b.Op != token.EQL {
						return
					}
					if _, isConst := b.Y.(*ssa.Const); isConst {
						return
					}
					if _, isConst := b.X.(*ssa.Const); isConst {
						return
					}
					if !isString(b.X.Type()) || !fromKey(b.X) || !fromKey(b.Y) {
						return
					}
					n++
					c.check(cmpNS, fmt.Sprintf("%s: attribute names#%d are compared together with their namespaces", shortName(f), n), p.instrPos(b), "Namespace is compared as well", "the serialiser takes two attributes for the same one because their Key is equal, without looking at Namespace: on an SVG / MathML element `xlink:href` and `href` (or `xml:lang` and `lang`) are different attributes, and the second one — a static attribute of the template — is not written")
				})
			}
			if n == 0 {
				c.ok("renderAttrs: no attribute is compared with another", p.pos(fn.Pos()), "every attribute is written on its own")
			}
		},
	})

	register(&Rule{
		ID: "C16.R13", Props: []string{"C16", "C06", "C01"}, Min: 1,
		Doc: "supplied slot content is always evaluated: evaluateSlotNodes returns nothing but what evaluate returned for the private copy — no shortcut hands the copy back unevaluated because it `has nothing to evaluate`. evaluate is also what consults and updates the v-once record: plain content with a v-once element that bypasses it is emitted at every instantiation of the slot",
		Run: func(p *Prog, c *Ctx) {
			fn := p.MustFn("(*vuego.Vue).evaluateSlotNodes")
			n := 0
			for _, r := range returnsOf(fn) {
				n++
				okAll := true
				for _, o := range append(p.origins(r.Results[0], OriginOpts{}), r.Results[0]) {
					switch x := o.(type) {
					case *ssa.Extract:
						if cl, ok := x.Tuple.(*ssa.Call); !ok || calleeName(&cl.Call) != "(*vuego.Vue).evaluate" {
							okAll = false
						}
					case *ssa.Const, *ssa.Phi:
					default:
						okAll = false
					}
				}
				c.check(okAll, fmt.Sprintf("evaluateSlotNodes: return#%d is the evaluator's result", n), p.instrPos(r), "result of evaluate (or nil with an error)", "some path returns the private copy of the slot content without handing it to evaluate: directives the shortcut's test does not know — v-once above all — are not applied, and a v-once element in plain supplied content is emitted at every instantiation")
			}
		},
	})

	register(&Rule{
		ID: "C17.R18", Props: []string{"C17", "C13"}, Min: 1,
		Doc: "the closing bracket is looked for after the opening one: in the path splitter every search for `]` (IndexByte, Index, IndexRune) is made in a piece of the path that starts behind the current position — a slice of the text, not the text itself. A search from the start finds the first `]` of the path again for every later `[`: `grid[1][0]` splits into `grid` and `1[0]`, and Resolve reports absence for an element ordinary indexing reaches",
		Run: func(p *Prog, c *Ctx) {
			fn := p.MustFn("vuego.splitPathImpl")
			n := 0
			for _, site := range callsIn(fn) {
				nm := calleeName(site.Common())
				if nm != "strings.IndexByte" && nm != "strings.Index" && nm != "strings.IndexRune" && nm != "strings.IndexAny" {
					continue
				}
				args := site.Common().Args
				needle := ""
				if s, ok := constString(args[1]); ok {
					needle = s
				} else if k, ok := constInt(args[1]); ok {
					needle = string(rune(k))
				}
				if !strings.Contains(needle, "]") {
					continue
				}
				n++
				_, sliced := args[0].(*ssa.Slice)
				inLoop := loopHeaderOf(site.Block()) != nil
				c.check(sliced || !inLoop, fmt.Sprintf("splitPathImpl: search for `]`#%d starts behind the bracket it closes", n), p.instrPos(site), "searched in a slice of the path", "the closing bracket is searched from the start of the whole path inside the scan: from the second `[` on the search finds an earlier `]` — `grid[1][0]`, `rows[1].cells[0]` and `m['k'][1]` are split wrongly and report absence")
			}
			if n == 0 {
				c.ok("splitPathImpl: the closing bracket is found by the scan itself", p.pos(fn.Pos()), "no library search for `]`")
			}
		},
	})

	register(&Rule{
		ID: "C19.R19", Props: []string{"C19"}, Min: 2,
		Doc: "what must survive byte for byte is cut out of the input itself: (a) the text Formatter.Format hands to splitFrontmatter is its own parameter, not a rewritten copy (a line-ending normalisation before the split changes the front-matter block and a multi-line doctype of every CRLF file); (b) the extra newline that compensates the one the parser drops after a start tag is written only under a test that the element is a pre, textarea or listing — written for every element inside a <pre> it adds a newline to `<pre><code>\\nfoo` on every pass",
		Run: func(p *Prog, c *Ctx) {
			format := p.MustFn("(*formatter.Formatter).Format")
			n := 0
			for _, site := range callsIn(format) {
				if calleeName(site.Common()) != "(*formatter.Formatter).splitFrontmatter" {
					continue
				}
				n++
				arg := site.Common().Args[len(site.Common().Args)-1] // (the text: the last argument, with or without a receiver before it)
				raw := true
				for _, o := range append(p.origins(arg, OriginOpts{}), arg) {
					switch x := o.(type) {
					case *ssa.Parameter:
						if x.Parent() != format {
							raw = false
						}
					default:
						raw = false
					}
				}
				c.check(raw, fmt.Sprintf("Format: splitFrontmatter#%d gets the input as it is", n), p.instrPos(site), "the parameter itself", "the text that is split into front-matter and body is a rewritten copy of the input (line endings normalised, trimmed, …): the front-matter block — and the doctype cut out of the body — are no longer the bytes of the source")
			}
			if n == 0 {
				undecided("Formatter.Format no longer calls splitFrontmatter")
			}
			m := 0
			for _, name := range []string{"(*formatter.Formatter).formatNode", "(*formatter.Formatter).renderPreContent"} {
				fn := p.MustFn(name)
				for _, site := range callsIn(fn) {
					nm := calleeName(site.Common())
					if !strings.HasSuffix(nm, ".WriteString") && !strings.HasSuffix(nm, ".WriteByte") {
						continue
					}
					args := site.Common().Args
					s, ok := constString(args[len(args)-1])
					if !ok {
						if k, isK := constInt(args[len(args)-1]); isK {
							s, ok = string(rune(k)), true
						}
					}
					if !ok || s != "\n" {
						continue
					}
					// a compensation write: controlled by a HasPrefix(…, "\n") test
					comp := false
					for _, g := range controllingIfs(site) {
						for _, leaf := range condLeaves(g.If.Cond) {
							if cl, ok := leaf.(*ssa.Call); ok && calleeName(&cl.Call) == "strings.HasPrefix" && len(cl.Call.Args) == 2 {
								if pre, ok := constString(cl.Call.Args[1]); ok && pre == "\n" {
									comp = true
								}
							}
						}
					}
					if !comp {
						continue
					}
					m++
					named := enteredOnlyUnder(site.Block(), func(cnd ssa.Value, want bool) bool {
						_, set, member, ok := inSetOnEdge(cnd, want)
						if !ok || !member || len(set) == 0 {
							return false
						}
						for _, s := range set {
							if s != "pre" && s != "textarea" && s != "listing" {
								return false
							}
						}
						return true
					})
					c.check(named, fmt.Sprintf("%s: compensating newline#%d is for pre / textarea / listing only", strings.TrimPrefix(name, "(*formatter.Formatter)."), m), p.instrPos(site), "under a test of the element's name", "the extra newline after a start tag is written whatever the element is: the parser drops a leading newline only after <pre>, <textarea> and <listing>, so `<pre><code>\\nfoo</code></pre>` gains one newline per formatting pass")
				}
			}
			if m == 0 {
				undecided("no compensating newline is written in formatNode / renderPreContent")
			}
		},
	})

	register(&Rule{
		ID: "C20.R16", Props: []string{"C20"}, Min: 1,
		Doc: "literal text stays literal: wherever the Markdown renderer resolves backslash escapes and character references in the segment of a Text node (plainText), it does so under a test of the node's IsRaw() — goldmark marks the text inside a code span as raw, and the alt text of `![the `\\\\*` operator](op.png)` keeps its backslash; resolving every Text node turns `\\\\*` into `*` and `&amp;amp;` into `&`",
		Run: func(p *Prog, c *Ctx) {
			n := 0
			for _, fn := range p.liveFuncs() {
				if pk := funcPkg(fn); pk == nil || pk.Path() != markdownPkg {
					continue
				}
				for _, site := range callsIn(fn) {
					if calleeName(site.Common()) != "markdown.plainText" {
						continue
					}
					// the argument is the segment of a Text node
					isText := false
					for _, o := range append(p.origins(site.Common().Args[0], OriginOpts{}), site.Common().Args[0]) {
						cl, ok := o.(*ssa.Call)
						if !ok || !strings.HasSuffix(calleeName(&cl.Call), "text.Segment).Value") {
							continue
						}
						for _, oo := range append(p.origins(cl.Call.Args[0], OriginOpts{}), cl.Call.Args[0]) {
							if fa, ok := oo.(*ssa.FieldAddr); ok && strings.HasSuffix(typeShort(fa.X.Type()), "ast.Text") {
								isText = true
							}
							if ld, ok := oo.(*ssa.UnOp); ok {
								if fa, ok := ld.X.(*ssa.FieldAddr); ok && strings.HasSuffix(typeShort(fa.X.Type()), "ast.Text") {
									isText = true
								}
							}
						}
					}
					if !isText {
						continue
					}
					n++
					guarded := false
					for _, g := range controllingIfs(site) {
						for _, leaf := range condLeaves(g.If.Cond) {
							if cl, ok := leaf.(*ssa.Call); ok && strings.HasSuffix(calleeName(&cl.Call), ".IsRaw") {
								guarded = true
							}
						}
					}
					c.check(guarded, fmt.Sprintf("%s: plainText of a Text segment#%d only for text that is not raw", shortName(fn), n), p.instrPos(site), "under an IsRaw() test", "the segment of every Text node is resolved, raw ones included: the text of a code span inside an image description or a link loses its backslashes and has its character references resolved, where the reference renderer keeps it literal")
				}
			}
			if n == 0 {
				undecided("the Markdown renderer no longer resolves Text segments through plainText")
			}
		},
	})

	register(&Rule{
		ID: "C01.R11", Props: []string{"C01", "C14"}, Min: 1,
		Doc: "a bound attribute never becomes a directive: in evalAttributes the name of a binding (`:name`, `v-bind:name`) is tested with the serialiser's directive table (shouldIgnoreAttr) before its evaluated value is recorded as an attribute of the element — `<p :v-show=\"x\">` otherwise appends the attribute v-show with a *data value*, and the handler that runs after the attribute pass evaluates that value as an expression (the element's visibility then tells whether `secret == '…'` holds)",
		Run: func(p *Prog, c *Ctx) {
			fn := p.MustFn("(*vuego.Vue).evalAttributes")
			// the recording of a bound value as an attribute-to-be: a map update under the bound name in a map other than
			// the result map that is returned
			n := 0
			var returned []ssa.Value
			for _, r := range returnsOf(fn) {
				returned = append(returned, p.origins(r.Results[0], OriginOpts{})...)
			}
			isReturned := func(m ssa.Value) bool {
				for _, o := range append(p.origins(m, OriginOpts{}), m) {
					for _, r := range returned {
						if o == r {
							return true
						}
					}
				}
				return false
			}
			eachInstr(fn, func(in ssa.Instruction) {
				mu, ok := in.(*ssa.MapUpdate)
				if !ok || isReturned(mu.Map) {
					return
				}
				// keyed by a computed name (the bound name), in a map made here
				if _, isConst := mu.Key.(*ssa.Const); isConst {
					return
				}
				local := false
				for _, o := range append(p.origins(mu.Map, OriginOpts{}), mu.Map) {
					if mk, ok := o.(*ssa.MakeMap); ok && mk.Parent() == fn {
						local = true
					}
				}
				if !local {
					return
				}
				n++
				tested := false
				for _, g := range controllingIfs(mu) {
					for _, leaf := range condLeaves(g.If.Cond) {
						if cl, ok := leaf.(*ssa.Call); ok && calleeName(&cl.Call) == "vuego.shouldIgnoreAttr" {
							if a := cl.Call.Args[0]; a == mu.Key || sameValue(a, mu.Key) {
								tested = true
							}
						}
					}
				}
				c.check(tested, fmt.Sprintf("evalAttributes: bound value#%d becomes an attribute only under a non-directive name", n), p.instrPos(mu), "the bound name passed shouldIgnoreAttr", "the evaluated value of a binding is recorded as an attribute whatever the binding is called: `:v-show=\"x\"`, `:v-if=\"x\"`, `:v-html=\"x\"` put a data value where the directive's handler expects template text, and the handler evaluates it")
			})
			if n == 0 {
				undecided("evalAttributes no longer records bound values in a map of attributes-to-be")
			}
		},
	})

	register(&Rule{
		ID: "C02.R16", Props: []string{"C02", "C01"}, Min: 1,
		Doc: "whether a text is interpolated is decided by an opener that has a closer behind it, not by book-keeping over the whole text: containsInterpolation does not compare the number of `{{` with the number of `}}` — one stray `}}` (a CSS rule, a code sample) after a complete expression otherwise switches interpolation off for the entire text or attribute value, and `{{ x }}` is written out as template source",
		Run: func(p *Prog, c *Ctx) {
			fn := p.MustFn("vuego.containsInterpolation")
			var bad ssa.Instruction
			eachInstr(fn, func(in ssa.Instruction) {
				b, ok := in.(*ssa.BinOp)
				if !ok || (b.Op != token.EQL && b.Op != token.NEQ) {
					return
				}
				isCount := func(v ssa.Value) bool {
					for _, o := range append(p.origins(v, OriginOpts{}), v) {
						if cl, ok := o.(*ssa.Call); ok && (calleeName(&cl.Call) == "strings.Count" || calleeName(&cl.Call) == "bytes.Count") {
							return true
						}
					}
					return false
				}
				if isCount(b.X) && isCount(b.Y) {
					bad = b
				}
			})
			pos := p.pos(fn.Pos())
			if bad != nil {
				pos = p.instrPos(bad)
			}
			c.check(bad == nil, "containsInterpolation: decided by position, not by counting", pos, "no comparison of two delimiter counts", "the text counts as interpolated only when it holds as many `{{` as `}}`: `<p>{{ x }} }}</p>` is written out unevaluated")
		},
	})

	register(&Rule{
		ID: "C13.R26", Props: []string{"C13", "C12"}, Min: 2,
		Doc: "what a function returns is converted the way its type says: (a) in the reflective caller the case of a single result looks at the result's type (reflect.Type.Out) — a function whose only result is an error reports failure, its error is not a value to print; (b) convertValue turns a float32 into a string through a float32 (a conversion to float32, or FormatFloat with bit size 32) — through its float64 value 0.1 becomes 0.10000000149011612 for the function while {{ }} prints 0.1",
		Run: func(p *Prog, c *Ctx) {
			call := p.MustFn("(*vuego.Vue).callFunc")
			looks := false
			for _, site := range callsIn(call) {
				nm := calleeName(site.Common())
				if strings.HasSuffix(nm, "reflect.Type.Out") || strings.HasSuffix(nm, "reflect.Type.NumOut") || strings.HasSuffix(nm, "reflect.Type.Implements") {
					looks = true
				}
			}
			c.check(looks, "callFunc: a single result is classified by its type", p.pos(call.Pos()), "the result type is consulted", "callFunc never looks at the types of a function's results: the only result of `func(…) error` is handed back as the value — the error's text is printed into the page and the render returns nil")
			conv := p.MustFn("vuego.convertValue")
			as32 := false
			eachInstr(conv, func(in ssa.Instruction) {
				switch x := in.(type) {
				case *ssa.Convert:
					if b, ok := x.Type().Underlying().(*types.Basic); ok && b.Kind() == types.Float32 {
						as32 = true
					}
				case ssa.CallInstruction:
					if calleeName(x.Common()) == "strconv.FormatFloat" {
						if k, ok := constInt(x.Common().Args[3]); !ok || k == 32 {
							as32 = true
						}
					}
				}
			})
			c.check(as32, "convertValue: a float32 is printed as a float32", p.pos(conv.Pos()), "converted to float32 (or formatted with bit size 32) before printing", "convertValue prints every float through reflect.Value.Float(), a float64: a float32 argument for a string parameter arrives as 0.10000000149011612 where {{ }} and | string print 0.1")
		},
	})

	register(&Rule{
		ID: "C11.R17", Props: []string{"C11", "C17"}, Min: 1,
		Doc: "pointers are followed for a bounded number of steps: every loop of the module that replaces a reflect.Value by its Elem() for as long as it is a pointer either counts its rounds against a constant or remembers the pointers it has seen (a map lookup of Value.Pointer()). A self-referential pointer type (type P *P; p = &p) never reaches a non-pointer: without a bound the render call does not return",
		Run: func(p *Prog, c *Ctx) {
			n := 0
			for _, fn := range p.liveFuncs() {
				seenHeader := map[*ssa.BasicBlock]bool{}
				for _, site := range callsIn(fn) {
					cv, ok := site.(*ssa.Call)
					if nm := calleeName(site.Common()); !ok || (nm != "(reflect.Value).Elem" && nm != "reflect.Type.Elem" && nm != "(reflect.Type).Elem") {
						continue // (a loop over the *type* `for t.Kind() == reflect.Pointer { t = t.Elem() }` never ends for type P *P either)
					}
					h := loopHeaderOf(site.Block())
					if h == nil || seenHeader[h] {
						continue
					}
					// the loop carries the value it dereferences: Elem()'s result feeds a φ (or a cell) read by the receiver
					carried := false
					if cv.Referrers() != nil {
						for _, r := range *cv.Referrers() {
							switch x := r.(type) {
							case *ssa.Phi:
								if x.Block() == h {
									carried = true
								}
							case *ssa.Store:
								if cellOf(x.Addr) != nil {
									carried = true
								}
							}
						}
					}
					if !carried {
						continue
					}
					// only loops whose condition is `still a pointer`
					isPtrLoop := false
					lb := loopBlocks(h)
					for b := range lb {
						for _, in := range b.Instrs {
							if ifi, ok := in.(*ssa.If); ok {
								for _, leaf := range condLeaves(ifi.Cond) {
									if cl, ok := leaf.(*ssa.Call); ok && (strings.HasSuffix(calleeName(&cl.Call), ").Kind") || calleeName(&cl.Call) == "reflect.Type.Kind") {
										isPtrLoop = true
									}
								}
							}
						}
					}
					if !isPtrLoop {
						continue
					}
					seenHeader[h] = true
					n++
					bounded := false
					for b := range lb {
						for _, in := range b.Instrs {
							switch x := in.(type) {
							case *ssa.If:
								if _, _, y, ok := relationConstRight(x.Cond, true); ok {
									if _, isK := constInt(y); isK {
										if bo, isB := x.Cond.(*ssa.BinOp); isB {
											if _, isPhi := bo.X.(*ssa.Phi); isPhi {
												bounded = true
											}
										}
									}
								}
							case *ssa.Lookup:
								bounded = true // a visited set
							}
						}
					}
					c.check(bounded, fmt.Sprintf("%s: pointer-following loop#%d is bounded", shortName(fn), n), p.instrPos(site), "a round counter or a visited set", "the loop follows pointers until it meets a non-pointer and has no bound: for data of a self-referential pointer type (type P *P; p = &p) it never ends and the render call does not return")
				}
			}
			if n == 0 {
				undecided("no pointer-following loop found in the module")
			}
		},
	})
}
