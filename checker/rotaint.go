package main

import (
	"fmt"
	"go/token"
	"go/types"
	"strings"

	"golang.org/x/tools/go/ssa"
)

// roTaint is a forward, inter-procedural, context-insensitive taint over "values that must not be
// written through" (shared cached DOM, cached front-matter, the caller's data). It follows the
// value through projections (fields, elements, children), local cells, calls into module
// functions (parameter binding), returns, and stores into fields (field-based heap).
// A violation is any write through a tainted reference.
type roTaint struct {
	p        *Prog
	why      map[ssa.Value]string
	work     []ssa.Value
	fieldT   map[*types.Var]string // struct fields that may hold a tainted value
	viol     []roViolation
	seenViol map[ssa.Instruction]bool
	// cleaners: module functions whose result is a private copy even if the argument is shared
	stopAt func(fn *ssa.Function) bool
	// after: if set, a use in the same function as the instruction only counts when it can follow it
	after map[ssa.Value]ssa.Instruction
	uses  int
	// holder: containers (local slices/arrays) that merely hold shared references; writing into the
	// container is fine, the elements read from it are shared
	holder map[ssa.Value]bool
}

type roViolation struct {
	at   ssa.Instruction
	what string
	why  string
}

func newROTaint(p *Prog) *roTaint {
	return &roTaint{p: p, why: map[ssa.Value]string{}, fieldT: map[*types.Var]string{}, seenViol: map[ssa.Instruction]bool{}, after: map[ssa.Value]ssa.Instruction{}, holder: map[ssa.Value]bool{}}
}

func (t *roTaint) seed(v ssa.Value, why string) {
	if v == nil {
		return
	}
	if _, ok := t.why[v]; ok {
		if t.holder[v] {
			// known so far as a container that merely holds shared values: now it is shared itself
			// (a recursive merge is handed the nested map it read out of its own destination)
			delete(t.holder, v)
			t.why[v] = why
			t.work = append(t.work, v)
		}
		return
	}
	t.why[v] = why
	t.work = append(t.work, v)
}

// seedHolder marks a container that holds shared elements without being shared itself.
func (t *roTaint) seedHolder(v ssa.Value, why string) {
	if v == nil {
		return
	}
	if _, ok := t.why[v]; ok {
		return
	}
	t.holder[v] = true
	t.why[v] = why
	t.work = append(t.work, v)
}

func (t *roTaint) violate(at ssa.Instruction, what string, v ssa.Value) {
	if t.seenViol[at] {
		return
	}
	t.seenViol[at] = true
	t.viol = append(t.viol, roViolation{at: at, what: what, why: t.why[v]})
}

func refOnly(ty types.Type) bool {
	// only reference-like values can be written through
	switch u := ty.Underlying().(type) {
	case *types.Pointer, *types.Slice, *types.Map, *types.Interface:
		return true
	case *types.Struct:
		for i := 0; i < u.NumFields(); i++ {
			if refOnly(u.Field(i).Type()) {
				return true
			}
		}
	case *types.Tuple:
		return true
	case *types.Array:
		return refOnly(u.Elem())
	}
	return false
}

var externalMutators = map[string]bool{
	"(*golang.org/x/net/html.Node).AppendChild":  true,
	"(*golang.org/x/net/html.Node).InsertBefore": true,
	"(*golang.org/x/net/html.Node).RemoveChild":  true,
}

func (t *roTaint) run() {
	for len(t.work) > 0 {
		v := t.work[len(t.work)-1]
		t.work = t.work[:len(t.work)-1]
		why := t.why[v]
		refs := v.Referrers()
		if refs == nil {
			continue
		}
		for _, u := range *refs {
			if a, ok := t.after[v]; ok && u.Parent() == a.Parent() && !canFollow(a, u) {
				continue
			}
			t.uses++
			if t.holder[v] {
				t.holderUse(u, v, why)
				continue
			}
			switch x := u.(type) {
			case *ssa.Phi, *ssa.ChangeType, *ssa.MakeInterface, *ssa.ChangeInterface, *ssa.Slice, *ssa.Index, *ssa.Field:
				val := x.(ssa.Value)
				if refOnly(val.Type()) {
					t.seedAfter(val, why, v)
				}
			case *ssa.TypeAssert:
				t.seedAfter(x, why, v)
			case *ssa.Extract:
				t.seedAfter(x, why, v)
			case *ssa.Lookup:
				if x.X == v {
					t.seedAfter(x, why, v)
				}
			case *ssa.Range:
				t.seedAfter(x, why, v)
			case *ssa.Next:
				t.seedAfter(x, why, v)
			case *ssa.FieldAddr:
				t.seedAfter(x, why, v) // address inside the shared object
			case *ssa.IndexAddr:
				t.seedAfter(x, why, v)
			case *ssa.UnOp:
				if x.Op == token.MUL && x.X == v {
					// load through a tainted address: the loaded reference is shared as well
					if refOnly(x.Type()) {
						t.seedAfter(x, why, v)
					}
				}
			case *ssa.MapUpdate:
				if x.Map == v {
					t.violate(x, "map update", v)
				} else if x.Value == v {
					// stored as a map value: the map now holds a shared reference — what is read out of it again
					// (a lookup, a range) is shared; writing further entries into the map itself is not a write
					// through the shared value
					if refOnly(v.Type()) {
						t.seedHolder(x.Map, why+" → stored as a map value at "+t.p.instrPos(x))
					}
				}
			case *ssa.Store:
				if x.Addr == v {
					// v is an address derived from a shared object (FieldAddr/IndexAddr) — a write through it
					switch v.(type) {
					case *ssa.FieldAddr, *ssa.IndexAddr:
						t.violate(x, "store through a shared reference", v)
					}
				}
				if x.Val == v {
					if cell := cellOf(x.Addr); cell != nil {
						walkFuncTree(rootFunc(cell.Parent()), func(f *ssa.Function) {
							eachInstr(f, func(in ssa.Instruction) {
								if ld, ok := in.(*ssa.UnOp); ok && ld.Op == token.MUL && cellOf(ld.X) == cell {
									t.seed(ld, why)
								}
							})
						})
					} else if ia, ok := x.Addr.(*ssa.IndexAddr); ok {
						// stored as an element of a local array/slice (variadic packing, slice building)
						t.seedHolder(ia.X, why+" → stored as an element at "+t.p.instrPos(x))
					} else if fv := fieldVar(x.Addr); fv != nil {
						if _, ok := t.fieldT[fv]; !ok {
							t.fieldT[fv] = why + " → stored in field " + fv.Name() + " at " + t.p.instrPos(x)
							t.taintFieldLoads(fv)
						}
					}
				}
			case ssa.CallInstruction:
				t.call(x, v, why)
			case *ssa.Return:
				fn := x.Parent()
				idx := -1
				for i, r := range x.Results {
					if r == v {
						idx = i
					}
				}
				if idx < 0 {
					continue
				}
				for _, site := range t.p.Callers(fn) {
					cv, ok := site.(*ssa.Call)
					if !ok {
						continue
					}
					w := why + " → returned by " + shortName(fn)
					if fn.Signature.Results().Len() == 1 {
						t.seed(cv, w)
					} else if crefs := cv.Referrers(); crefs != nil {
						for _, r := range *crefs {
							if ex, ok := r.(*ssa.Extract); ok && ex.Index == idx {
								t.seed(ex, w)
							}
						}
					}
				}
			}
		}
	}
}

// holderUse propagates a container of shared elements: reading an element yields a shared value,
// writing into the container is not a violation.
func (t *roTaint) holderUse(u ssa.Instruction, v ssa.Value, why string) {
	switch x := u.(type) {
	case *ssa.Phi, *ssa.ChangeType, *ssa.Slice, *ssa.MakeInterface:
		t.seedHolder(x.(ssa.Value), why)
	case *ssa.Index:
		t.seed(x, why)
	case *ssa.Lookup:
		if x.X == v && (refOnly(x.Type()) || x.CommaOk) {
			if x.CommaOk {
				if refs := x.Referrers(); refs != nil {
					for _, r := range *refs {
						if ex, ok := r.(*ssa.Extract); ok && ex.Index == 0 && refOnly(ex.Type()) {
							t.seed(ex, why)
						}
					}
				}
			} else {
				t.seed(x, why)
			}
		}
	case *ssa.IndexAddr:
		if x.X == v {
			if refs := x.Referrers(); refs != nil {
				for _, r := range *refs {
					if ld, ok := r.(*ssa.UnOp); ok && ld.Op == token.MUL {
						t.seed(ld, why)
					}
				}
			}
		}
	case *ssa.Range:
		t.seedHolder(x, why)
	case *ssa.Next:
		t.seedHolder(x, why)
	case *ssa.Extract:
		if x.Index >= 1 && refOnly(x.Type()) {
			t.seed(x, why)
		}
	case *ssa.Store:
		if x.Val == v {
			if cell := cellOf(x.Addr); cell != nil {
				walkFuncTree(rootFunc(cell.Parent()), func(f *ssa.Function) {
					eachInstr(f, func(in ssa.Instruction) {
						if ld, ok := in.(*ssa.UnOp); ok && ld.Op == token.MUL && cellOf(ld.X) == cell {
							t.seedHolder(ld, why)
						}
					})
				})
			} else if fv := fieldVar(x.Addr); fv != nil {
				// a container of shared references kept in a struct field (a stack's scope list): loads of the field hold them too
				if _, ok := t.fieldT[fv]; !ok {
					t.fieldT[fv] = why + " → kept in field " + fv.Name() + " at " + t.p.instrPos(x)
					for _, fn := range t.p.Funcs {
						eachInstr(fn, func(in ssa.Instruction) {
							if fa, ok := in.(*ssa.FieldAddr); ok && fieldVar(fa) == fv {
								if refs := fa.Referrers(); refs != nil {
									for _, r := range *refs {
										if ld, ok := r.(*ssa.UnOp); ok && ld.Op == token.MUL {
											t.seedHolder(ld, t.fieldT[fv])
										}
									}
								}
							}
						})
					}
				}
			}
		}
	case *ssa.Return:
		fn := x.Parent()
		for i, r := range x.Results {
			if r != v {
				continue
			}
			for _, site := range t.p.Callers(fn) {
				cv, ok := site.(*ssa.Call)
				if !ok {
					continue
				}
				w := why + " → returned by " + shortName(fn)
				if fn.Signature.Results().Len() == 1 {
					t.seedHolder(cv, w)
				} else if crefs := cv.Referrers(); crefs != nil {
					for _, rr := range *crefs {
						if ex, ok := rr.(*ssa.Extract); ok && ex.Index == i {
							t.seedHolder(ex, w)
						}
					}
				}
			}
		}
	case ssa.CallInstruction:
		cc := x.Common()
		args := callArgs(cc)
		if b, ok := cc.Value.(*ssa.Builtin); ok {
			if b.Name() == "append" {
				if cv, ok := x.(*ssa.Call); ok {
					t.seedHolder(cv, why)
				}
			}
			return
		}
		for ai, a := range args {
			if a != v {
				continue
			}
			for _, callee := range t.p.Callees(x) {
				if inModule(callee) && len(callee.Blocks) > 0 && ai < len(callee.Params) {
					t.seedHolder(callee.Params[ai], fmt.Sprintf("%s → passed to %s at %s", why, shortName(callee), t.p.instrPos(x)))
				}
			}
		}
	}
}

func (t *roTaint) seedAfter(nv ssa.Value, why string, from ssa.Value) {
	if a, ok := t.after[from]; ok {
		if _, known := t.why[nv]; !known {
			t.after[nv] = a
		}
	}
	t.seed(nv, why)
}

func (t *roTaint) taintFieldLoads(fv *types.Var) {
	for _, fn := range t.p.Funcs {
		eachInstr(fn, func(in ssa.Instruction) {
			switch x := in.(type) {
			case *ssa.FieldAddr:
				if fieldVar(x) == fv {
					if refs := x.Referrers(); refs != nil {
						for _, r := range *refs {
							if ld, ok := r.(*ssa.UnOp); ok && ld.Op == token.MUL {
								t.seed(ld, t.fieldT[fv])
							}
						}
					}
				}
			case *ssa.Field:
				if fieldVar(x) == fv {
					t.seed(x, t.fieldT[fv])
				}
			}
		})
	}
}

func (t *roTaint) call(site ssa.CallInstruction, v ssa.Value, why string) {
	cc := site.Common()
	name := calleeName(cc)
	args := callArgs(cc)
	if b, ok := cc.Value.(*ssa.Builtin); ok {
		switch b.Name() {
		case "delete":
			if len(args) > 0 && args[0] == v {
				t.violate(site, "delete from a shared map", v)
			}
		case "append":
			if cv, ok := site.(*ssa.Call); ok && len(args) > 0 && args[0] == v {
				t.seed(cv, why)
			}
			if cv, ok := site.(*ssa.Call); ok && len(args) > 1 && args[1] == v {
				// elements are copied: the result holds shared references only if the elements are references
				if sl, ok := v.Type().Underlying().(*types.Slice); ok && refOnly(sl.Elem()) {
					t.seed(cv, why)
				}
			}
		case "copy":
			if len(args) > 0 && args[0] == v {
				t.violate(site, "copy() into a shared slice", v)
			}
		case "clear":
			if len(args) > 0 && args[0] == v {
				t.violate(site, "clear() of a shared container", v)
			}
		}
		return
	}
	if externalMutators[name] {
		t.violate(site, "call of the mutating method "+name, v)
		return
	}
	for ai, a := range args {
		if a != v {
			continue
		}
		for _, callee := range t.p.Callees(site) {
			if !inModule(callee) || len(callee.Blocks) == 0 {
				continue
			}
			if t.stopAt != nil && t.stopAt(callee) {
				// still analyse the callee's own writes through the parameter
			}
			if ai < len(callee.Params) {
				t.seed(callee.Params[ai], fmt.Sprintf("%s → passed to %s at %s", why, shortName(callee), t.p.instrPos(site)))
			}
		}
	}
	// closures capturing the value directly
	if mc, ok := site.(*ssa.Call); ok {
		_ = mc
	}
}

func shortWhy(s string) string {
	if len(s) > 400 {
		return s[:200] + " … " + s[len(s)-180:]
	}
	return strings.TrimSpace(s)
}
