package main

import (
	"fmt"
	"go/token"
	"go/types"
	"sort"
	"strings"

	"golang.org/x/tools/go/ssa"
)

// Rules that came with the fourth batch of repairs of session 6 (rows 107–110) and with the ninth seeding round.

func init() {
	register(&Rule{
		ID: "C11.R18", Props: []string{"C11", "C06"}, Min: 2,
		Doc: "a pointer taken out of a data value is nil until shown otherwise: where the module asserts a value of type any (something read from the scope or the data) to a pointer to one of its own struct types, the pointer is dereferenced — a field read, a method called on it — only on ways on which it was compared with nil and is not nil. The comma-ok form succeeds for a typed nil: `(*SlotScope)(nil)` under the reserved key `__slotScope__` passes `v.(*SlotScope)` and panics in GetSlot",
		Run: func(p *Prog, c *Ctx) {
			n := 0
			for _, fn := range p.liveFuncs() {
				eachInstr(fn, func(in ssa.Instruction) {
					ta, ok := in.(*ssa.TypeAssert)
					if !ok || !ta.CommaOk {
						return
					}
					ptr, ok := ta.AssertedType.(*types.Pointer)
					if !ok {
						return
					}
					nt, ok := ptr.Elem().(*types.Named)
					if !ok || nt.Obj().Pkg() == nil || !strings.HasPrefix(nt.Obj().Pkg().Path(), modPath) {
						return
					}
					if _, isStruct := nt.Underlying().(*types.Struct); !isStruct {
						return
					}
					if it, ok := ta.X.Type().Underlying().(*types.Interface); !ok || it.NumMethods() != 0 {
						return // an assertion on a narrower interface (a node, an error) is not a read of data
					}
					var val *ssa.Extract
					if ta.Referrers() != nil {
						for _, r := range *ta.Referrers() {
							if ex, ok := r.(*ssa.Extract); ok && ex.Index == 0 {
								val = ex
							}
						}
					}
					if val == nil || val.Referrers() == nil {
						return
					}
					n++
					key := fmt.Sprintf("%s: %s taken out of a data value#%d", shortName(fn), typeShort(ta.AssertedType), n)
					bad := ""
					var badAt ssa.Instruction
					for _, u := range *val.Referrers() {
						deref := false
						switch x := u.(type) {
						case *ssa.FieldAddr:
							deref = x.X == ssa.Value(val)
						case ssa.CallInstruction:
							cc := x.Common()
							if !cc.IsInvoke() && len(cc.Args) > 0 && cc.Args[0] == ssa.Value(val) && cc.Signature().Recv() != nil {
								deref = true
							}
						case *ssa.UnOp:
							deref = x.Op == token.MUL && x.X == ssa.Value(val)
						}
						if !deref {
							continue
						}
						checked := guardedBy(u.Block(), func(cnd ssa.Value, want bool) bool {
							b, ok := cnd.(*ssa.BinOp)
							if !ok {
								return false
							}
							if !((b.X == ssa.Value(val) && isNilConst(b.Y)) || (b.Y == ssa.Value(val) && isNilConst(b.X))) {
								return false
							}
							return (b.Op == token.NEQ && want) || (b.Op == token.EQL && !want)
						})
						if !checked && bad == "" {
							bad = describeValue(u.(ssa.Value))
							badAt = u
						}
					}
					if bad != "" {
						c.fail(key, p.instrPos(badAt), "the pointer is used ("+bad+") on a way on which it was not compared with nil: the comma-ok assertion succeeds for a typed nil pointer stored in the data, and the use panics")
					} else {
						c.ok(key, p.instrPos(ta), "every use of the pointer lies behind a `!= nil` test")
					}
				})
			}
		},
	})

	register(&Rule{
		ID: "C11.R19", Props: []string{"C11", "C17", "C13"}, Min: 1,
		Doc: "the module does not ask a data value for its text itself: where a value of type any is found to be a fmt.Stringer (a type-switch arm or an assertion), String() is not invoked on it by the module — it is handed to the printer (helpers.Sprint / fmt), which calls String() under a recover and prints <nil> for a nil pointer. `(*url.URL)(nil)` or a nil *time.Time in the data satisfies fmt.Stringer; t.String() on it ends the caller (Stack.GetString did)",
		Run: func(p *Prog, c *Ctx) {
			n := 0
			for _, fn := range p.liveFuncs() {
				eachInstr(fn, func(in ssa.Instruction) {
					ta, ok := in.(*ssa.TypeAssert)
					if !ok {
						return
					}
					nt, ok := ta.AssertedType.(*types.Named)
					if !ok || nt.Obj().Pkg() == nil || nt.Obj().Pkg().Path() != "fmt" || nt.Obj().Name() != "Stringer" {
						return
					}
					if it, ok := ta.X.Type().Underlying().(*types.Interface); !ok || it.NumMethods() != 0 {
						return
					}
					n++
					key := fmt.Sprintf("%s: data value found to be a fmt.Stringer#%d", shortName(fn), n)
					// the asserted value: the TypeAssert itself, or the first component of the comma-ok tuple
					var vals []ssa.Value
					if ta.CommaOk {
						if ta.Referrers() != nil {
							for _, r := range *ta.Referrers() {
								if ex, ok := r.(*ssa.Extract); ok && ex.Index == 0 {
									vals = append(vals, ex)
								}
							}
						}
					} else {
						vals = append(vals, ta)
					}
					var badAt ssa.Instruction
					seen := map[ssa.Value]bool{}
					var walk func(v ssa.Value)
					walk = func(v ssa.Value) {
						if seen[v] || v.Referrers() == nil {
							return
						}
						seen[v] = true
						for _, u := range *v.Referrers() {
							switch x := u.(type) {
							case ssa.CallInstruction:
								cc := x.Common()
								if cc.IsInvoke() && cc.Value == v && cc.Method.Name() == "String" && badAt == nil {
									badAt = u
								}
							case *ssa.Phi:
								walk(x)
							case *ssa.ChangeInterface:
								walk(x)
							}
						}
					}
					for _, v := range vals {
						walk(v)
					}
					if badAt != nil {
						c.fail(key, p.instrPos(badAt), "String() is invoked on the data value directly: a nil pointer whose type has a value-receiver String method (or a String method that panics) ends the caller — fmt would have printed <nil> / the panic text")
					} else {
						c.ok(key, p.instrPos(ta), "the value goes to the printer; String() is not invoked by the module")
					}
				})
			}
		},
	})

	register(&Rule{
		ID: "C17.R19", Props: []string{"C17", "C03", "C08"}, Min: 1,
		Doc: "root data that is a pointer to a map is the map: the function that turns the caller's data into the root scope (toMapData → StringKeyedMap) asks for the map kind of a value that has been taken through the pointers first (the operand of the `Kind() == reflect.Map` test comes, on some way, out of reflect.Value.Elem / reflect.Indirect). Stack.Lookup reaches the keys of `&m` through the root-data fallback, which dereferences; if the root scope stays empty, v-if / v-show / :class (which read the environment map) see nothing of what {{ }} prints",
		Run: func(p *Prog, c *Ctx) {
			fn := p.MustFn("reflect.StringKeyedMap")
			n := 0
			for _, site := range callsIn(fn) {
				if calleeName(site.Common()) != "(reflect.Value).Kind" {
					continue
				}
				cv, ok := site.(*ssa.Call)
				if !ok || cv.Referrers() == nil {
					continue
				}
				isMapTest := false
				for _, r := range *cv.Referrers() {
					if b, ok := r.(*ssa.BinOp); ok && (b.Op == token.EQL || b.Op == token.NEQ) {
						for _, side := range []ssa.Value{b.X, b.Y} {
							if k, ok := constInt(side); ok && k == 21 { // reflect.Map
								isMapTest = true
							}
						}
					}
				}
				if !isMapTest {
					continue
				}
				n++
				through := false
				for _, o := range p.origins(cv.Call.Args[0], OriginOpts{}) {
					if cl, ok := o.(*ssa.Call); ok {
						if nm := calleeName(&cl.Call); nm == "(reflect.Value).Elem" || nm == "reflect.Indirect" {
							through = true
						}
					}
				}
				c.check(through, fmt.Sprintf("StringKeyedMap: map-kind test#%d on the dereferenced value", n), p.instrPos(site), "the tested value may come out of Elem(): a pointer to a map is followed", "the map-kind test is made on the caller's value as it is: a pointer to a map (`Fill(&m)`, `Render(w, f, &m)`) gives an empty root scope, while Lookup still finds the keys through the root-data fallback — {{ x }} prints what v-if=\"x\" does not see")
			}
		},
	})

	register(&Rule{
		ID: "C17.R20", Props: []string{"C17", "C13"}, Min: 2,
		Doc: "a nested struct is turned into a map of its fields only if it has fields to offer: in the two converters of struct data (structToMap, PopulateStructFields) every way to the conversion of a field's value (the recursive structToMap / StructToMap call) passes a look at the exported fields of that value's own type — reflect.StructField.IsExported on a field of the *field value's* type, directly or in a helper that is handed that type. time.Time, big.Int, sql.NullTime's inner Time … export nothing: converted, they become an empty map, and `{{ created | formatTime(…) }}` of a struct root prints map[] where the same value in a map root prints the date",
		Run: func(p *Prog, c *Ctx) {
			// T is the type of a value obtained by reflect.Value.Field
			fieldValueType := func(v ssa.Value) bool {
				for _, o := range p.origins(v, OriginOpts{}) {
					cl, ok := o.(*ssa.Call)
					if !ok {
						continue
					}
					nm := calleeName(&cl.Call)
					if nm == "reflect.Type.Elem" {
						nm = "(reflect.Type).Elem"
					}
					if nm == "(reflect.Value).Type" || nm == "(reflect.Type).Elem" {
						recv := cl.Call.Args
						var x ssa.Value
						if cl.Call.IsInvoke() {
							x = cl.Call.Value
						} else if len(recv) > 0 {
							x = recv[0]
						}
						if x == nil {
							continue
						}
						if nm == "(reflect.Type).Elem" {
							for _, oo := range p.origins(x, OriginOpts{}) {
								if c2, ok := oo.(*ssa.Call); ok && calleeName(&c2.Call) == "(reflect.Value).Type" && len(c2.Call.Args) > 0 {
									for _, o3 := range p.origins(c2.Call.Args[0], OriginOpts{}) {
										if c3, ok := o3.(*ssa.Call); ok && calleeName(&c3.Call) == "(reflect.Value).Field" {
											return true
										}
									}
								}
							}
							continue
						}
						for _, oo := range p.origins(x, OriginOpts{}) {
							if c2, ok := oo.(*ssa.Call); ok && calleeName(&c2.Call) == "(reflect.Value).Field" {
								return true
							}
						}
					}
				}
				return false
			}
			n := 0
			for _, name := range []string{"reflect.structToMap", "reflect.PopulateStructFields"} {
				fn := p.MustFn(name)
				// the looks at the exported fields of a field value's type
				via := map[ssa.Instruction]bool{}
				for _, site := range callsIn(fn) {
					cc := site.Common()
					nm := calleeName(cc)
					if nm == "(reflect.StructField).IsExported" {
						// receiver: a StructField out of T.Field(i)
						for _, o := range p.origins(cc.Args[0], OriginOpts{}) {
							if cl, ok := o.(*ssa.Call); ok && (calleeName(&cl.Call) == "reflect.Type.Field" || calleeName(&cl.Call) == "(reflect.Type).Field") && cl.Call.IsInvoke() && fieldValueType(cl.Call.Value) {
								via[site] = true
							}
						}
						continue
					}
					if callee := cc.StaticCallee(); callee != nil && inModule(callee) && callee != fn {
						looks := false
						for g := range p.Cone(callee) {
							for _, s2 := range callsIn(g) {
								if calleeName(s2.Common()) == "(reflect.StructField).IsExported" {
									looks = true
								}
							}
						}
						if !looks {
							continue
						}
						for _, a := range cc.Args {
							if fieldValueType(a) {
								via[site] = true
							}
							// … or the field's value itself (the helper asks for its type)
							for _, o := range p.origins(a, OriginOpts{}) {
								if c2, ok := o.(*ssa.Call); ok && calleeName(&c2.Call) == "(reflect.Value).Field" {
									via[site] = true
								}
							}
						}
					}
				}
				for _, site := range callsIn(fn) {
					nm := calleeName(site.Common())
					if nm != "reflect.structToMap" && nm != "reflect.StructToMap" {
						continue
					}
					fromField := false
					for _, o := range p.origins(site.Common().Args[0], OriginOpts{}) {
						if cl, ok := o.(*ssa.Call); ok && calleeName(&cl.Call) == "(reflect.Value).Interface" && len(cl.Call.Args) > 0 {
							for _, oo := range p.origins(cl.Call.Args[0], OriginOpts{}) {
								if c2, ok := oo.(*ssa.Call); ok && calleeName(&c2.Call) == "(reflect.Value).Field" {
									fromField = true
								}
							}
						}
					}
					if !fromField {
						continue
					}
					n++
					ok := len(via) > 0 && mustPassBefore(fn, site, via)
					c.check(ok, fmt.Sprintf("%s: conversion of a field's value#%d", shortName(fn), n), p.instrPos(site), "every way to the conversion passes a look at the exported fields of the value's own type", "a field whose value is a struct (or a pointer to one) is converted to a map of its fields whatever it exports: a value of a type without exported fields — time.Time above all — becomes an empty map and is lost to filters, printing and comparison")
				}
			}
		},
	})

	register(&Rule{
		ID: "C12.R7", Props: []string{"C12", "C11", "C05", "C13"}, Min: 40,
		Doc: "an evaluator's error is the caller's error: in the functions of the render path (everything the render entries reach in the engine's own package) each call of a module function that returns an error hands that error on — the error value reaches a return of the calling function (directly or wrapped), and from the edge on which it was found non-nil every way ends in a return of a non-nil error: none goes on to the next node (`continue`), and none returns a nil error. A test `err == nil` whose other edge falls through to a return of an error variable that is nil there drops it just the same. The fallbacks the engine documents (an expression that does not evaluate is tried as a path; a missing optional file) are listed in the rule, one line each",
		Run: func(p *Prog, c *Ctx) {
			var roots []*ssa.Function
			for _, fn := range p.renderEntries() {
				roots = append(roots, fn)
			}
			cone := p.Cone(roots...)
			var scope []*ssa.Function
			for _, fn := range sortedFuncs(cone) {
				if pk := funcPkg(fn); pk != nil && pk.Path() == modPath {
					scope = append(scope, fn)
				}
			}
			p.errorDiscipline(c, scope, swallowTable)
		},
	})
}

// errorDiscipline decides, for every call in the given functions of a module function that returns an error, that the
// error is handed on (see C12.R7). fallback: "caller ← callee" pairs whose error is answered by a documented fallback.
func (p *Prog) errorDiscipline(c *Ctx, scope []*ssa.Function, fallback map[string]string) {
	n := map[string]int{}
	for _, fn := range scope {
		if p.Dropped[rootFunc(fn)] {
			continue
		}
		res := fn.Signature.Results()
		if res.Len() == 0 || !isErrorType(res.At(res.Len()-1).Type()) {
			continue
		}
		for _, site := range callsIn(fn) {
			cv, ok := site.(*ssa.Call)
			if !ok {
				continue
			}
			callee := cv.Call.StaticCallee()
			calleeLabel := ""
			if callee != nil && inModule(callee) {
				calleeLabel = shortName(callee)
			} else if callee == nil && !cv.Call.IsInvoke() {
				// a callback handed in by the caller (ForEach's fn): its error is the walk's error
				if prm, isPrm := cv.Call.Value.(*ssa.Parameter); isPrm {
					calleeLabel = "callback " + prm.Name()
				}
			}
			if calleeLabel == "" {
				continue
			}
			vals, has := errorResultOf(site)
			if !has {
				continue
			}
			pair := shortName(rootFunc(fn)) + " ← " + calleeLabel
			n[pair]++
			key := fmt.Sprintf("%s#%d", pair, n[pair])
			if why, ok := fallback[pair]; ok {
				c.ok(key, p.instrPos(site), "documented fallback: "+why)
				continue
			}
			if len(vals) == 0 {
				c.fail(key, p.instrPos(site), "the error result is discarded")
				continue
			}
			if ok, why := errorPropagated(site); !ok {
				c.fail(key, p.instrPos(site), why+": the failure of "+calleeLabel+" is lost and the render goes on (or reports success)")
				continue
			}
			bad := ""
			for _, e := range vals {
				if e.Referrers() == nil {
					continue
				}
				for _, r := range *e.Referrers() {
					b, ok := r.(*ssa.BinOp)
					if !ok || !(b.Op == token.NEQ || b.Op == token.EQL) || !(isNilConst(b.X) || isNilConst(b.Y)) || b.Referrers() == nil {
						continue
					}
					for _, rr := range *b.Referrers() {
						ifi, ok := rr.(*ssa.If)
						if !ok {
							continue
						}
						nonNil := ifi.Block().Succs[0]
						if b.Op == token.EQL {
							nonNil = ifi.Block().Succs[1]
						}
						if w := swallowsFrom(nonNil, ifi.Block(), e); w != "" && bad == "" {
							bad = w
						}
					}
				}
			}
			if bad != "" {
				c.fail(key, p.instrPos(site), "after "+calleeLabel+" failed, "+bad)
			} else {
				c.ok(key, p.instrPos(site), "the error reaches the return; every way from the failure edge returns a non-nil error")
			}
		}
	}
}

// swallowTable: calls whose error is answered by a documented fallback (C12.R7). Keyed "caller ← callee".
var swallowTable = map[string]string{
	"(*vuego.Vue).evalConditionExpr ← (*vuego.ExprEvaluator).Eval": "lenient position (the open finding under C13.R1): a condition that does not evaluate is tried as a path, then read as false",
	"(*vuego.Vue).evalSlot ← (*vuego.ExprEvaluator).Eval":          "lenient position (the open finding under C13.R1): a slot prop that does not evaluate is tried as a path, then left unbound",
	"(*vuego.Vue).evalTemplate ← (*vuego.Vue).evalPipe":            "first link of the fallback chain of a <template :name> binding (the open finding under C13.R2)",
	"(*vuego.Vue).evalTemplate ← (*vuego.ExprEvaluator).Eval":      "second link of the fallback chain of a <template :name> binding (the open finding under C13.R2)",
	"(*vuego.template).Render ← (*vuego.Loader).Stat":              "probe for the optional default layout: a missing layouts/base.vuego is not an error",
	"(*vuego.template).layout ← parser.ParseTemplateBytes":         "second parse of the page, made only to collect its slot content: renderWithoutLayout parses the same bytes and reports the error",
}

// swallowsFrom walks from the block entered when the error is non-nil. It reports a way that does not end in a
// return of a non-nil error: a return whose error operand is the nil constant, or a way back to a block that was
// reached before the test (the next round of a loop).
func swallowsFrom(start, test *ssa.BasicBlock, e ssa.Value) string {
	// values known to be a non-nil error on the way taken: e itself, what wraps it, and the φs it arrives in
	type state struct {
		b   *ssa.BasicBlock
		key string
	}
	seen := map[state]bool{}
	var bad string
	isWrap := func(v ssa.Value, known map[ssa.Value]bool) bool {
		cl, ok := v.(*ssa.Call)
		if !ok || !isErrorType(cl.Type()) {
			return false
		}
		nm := calleeName(&cl.Call)
		if nm == "fmt.Errorf" || strings.HasPrefix(nm, "errors.") {
			return true // these never return nil (errors.Join of a non-nil error included)
		}
		// a constructor of the module's own error types, or a local wrapper closure, handed a known error
		for _, a := range callArgs(&cl.Call) {
			if known[a] {
				if callee := cl.Call.StaticCallee(); callee != nil && inModule(callee) && alwaysNonNilError(callee) {
					return true
				}
			}
		}
		return false
	}
	keyOf := func(known map[ssa.Value]bool) string {
		var ks []string
		for v := range known {
			ks = append(ks, v.Name())
		}
		sort.Strings(ks)
		return strings.Join(ks, ",")
	}
	var walk func(b, from *ssa.BasicBlock, known map[ssa.Value]bool)
	walk = func(b, from *ssa.BasicBlock, known map[ssa.Value]bool) {
		if bad != "" {
			return
		}
		// what arrives in the φs of b along this edge
		if from != nil {
			idx := -1
			for i, pr := range b.Preds {
				if pr == from {
					idx = i
				}
			}
			next := map[ssa.Value]bool{}
			for v := range known {
				next[v] = true
			}
			for _, in := range b.Instrs {
				ph, ok := in.(*ssa.Phi)
				if !ok {
					break
				}
				delete(next, ph)
				if idx >= 0 && idx < len(ph.Edges) {
					if ev := ph.Edges[idx]; known[ev] || isWrap(ev, known) {
						next[ph] = true
					}
				}
			}
			known = next
		}
		st := state{b, keyOf(known)}
		if seen[st] {
			return
		}
		seen[st] = true
		if b == test || (b.Dominates(test) && b != start) {
			bad = fmt.Sprintf("a way leads back to %s without returning: the error is dropped and the evaluation goes on", blockWhere(b))
			return
		}
		// wraps made in this block
		for _, in := range b.Instrs {
			if v, ok := in.(ssa.Value); ok && isWrap(v, known) {
				known[v] = true
			}
			if mi, ok := in.(*ssa.MakeInterface); ok && known[mi.X] {
				known[mi] = true
			}
			if ci, ok := in.(*ssa.ChangeInterface); ok && known[ci.X] {
				known[ci] = true
			}
		}
		if len(b.Instrs) > 0 {
			switch last := b.Instrs[len(b.Instrs)-1].(type) {
			case *ssa.Return:
				if len(last.Results) > 0 {
					r := last.Results[len(last.Results)-1]
					if isErrorType(r.Type()) && isNilConst(r) {
						bad = "a way returns a nil error"
					}
				}
				return
			case *ssa.Panic:
				return
			case *ssa.If:
				// a test of a value known to be non-nil has one way out
				if bo, ok := last.Cond.(*ssa.BinOp); ok && (bo.Op == token.NEQ || bo.Op == token.EQL) {
					var x ssa.Value
					if isNilConst(bo.Y) {
						x = bo.X
					} else if isNilConst(bo.X) {
						x = bo.Y
					}
					if x != nil && known[x] {
						if bo.Op == token.NEQ {
							walk(b.Succs[0], b, known)
						} else {
							walk(b.Succs[1], b, known)
						}
						return
					}
				}
			}
		}
		for _, s := range b.Succs {
			walk(s, b, known)
		}
	}
	walk(start, test, map[ssa.Value]bool{e: true}) // (entered from the test: the φs of the first block take the failing edge's values)
	return bad
}

// alwaysNonNilError: every return of the function returns an error that is not the nil constant and not a
// parameter passed through unchanged (a constructor such as `&LessProcessorError{…}` or a wrapping closure).
func alwaysNonNilError(fn *ssa.Function) bool {
	if len(fn.Blocks) == 0 {
		return false
	}
	ok := true
	n := 0
	for _, b := range fn.Blocks {
		if len(b.Instrs) == 0 {
			continue
		}
		r, isRet := b.Instrs[len(b.Instrs)-1].(*ssa.Return)
		if !isRet || len(r.Results) == 0 {
			continue
		}
		n++
		last := r.Results[len(r.Results)-1]
		switch x := last.(type) {
		case *ssa.MakeInterface:
			if _, isPtr := x.X.Type().Underlying().(*types.Pointer); isPtr {
				if _, isAlloc := x.X.(*ssa.Alloc); !isAlloc {
					ok = false
				}
			}
		case *ssa.Call:
			nm := calleeName(&x.Call)
			if nm != "fmt.Errorf" && !strings.HasPrefix(nm, "errors.New") {
				ok = false
			}
		default:
			ok = false
		}
	}
	return ok && n > 0
}

func blockWhere(b *ssa.BasicBlock) string {
	if b.Comment != "" {
		return "the loop (" + b.Comment + ")"
	}
	return "an earlier point of the function"
}

func init() {
	register(&Rule{
		ID: "C02.R17", Props: []string{"C02", "C19"}, Min: 2,
		Doc: "a copy of a node has what the node has, whatever kind of node it is: in every function of the module that builds a fresh html.Node from the one it is given (the cloners), each of the fields Type, DataAtom, Data, Namespace and Attr that the function copies at all is stored on every way to a return of the fresh node — no store sits behind a test of the node's Type. A doctype keeps its PUBLIC and SYSTEM identifiers in Attr, a text node its text in Data; a cloner that copies Attr `for elements only` turns <!DOCTYPE html PUBLIC …> into <!DOCTYPE html>",
		Run: func(p *Prog, c *Ctx) {
			n := 0
			for _, fn := range p.liveFuncs() {
				if fn.Parent() != nil {
					continue
				}
				hasNodeParam := false
				for _, prm := range fn.Params {
					if pt, ok := prm.Type().(*types.Pointer); ok && isNamed(pt.Elem(), "golang.org/x/net/html", "Node") {
						hasNodeParam = true
					}
				}
				res := fn.Signature.Results()
				if !hasNodeParam || res.Len() == 0 {
					continue
				}
				if pt, ok := res.At(0).Type().(*types.Pointer); !ok || !isNamed(pt.Elem(), "golang.org/x/net/html", "Node") {
					continue
				}
				// fresh nodes and the stores into their fields
				stores := map[ssa.Value]map[string]map[ssa.Instruction]bool{}
				eachInstr(fn, func(in ssa.Instruction) {
					st, ok := in.(*ssa.Store)
					if !ok {
						return
					}
					fa, ok := st.Addr.(*ssa.FieldAddr)
					if !ok {
						return
					}
					al := freshNode(fa.X)
					if al == nil {
						return
					}
					name := fieldName(fa.X.Type(), fa.Field)
					switch name {
					case "Type", "DataAtom", "Data", "Namespace", "Attr":
					default:
						return
					}
					if stores[al] == nil {
						stores[al] = map[string]map[ssa.Instruction]bool{}
					}
					if stores[al][name] == nil {
						stores[al][name] = map[ssa.Instruction]bool{}
					}
					stores[al][name][st] = true
				})
				if len(stores) == 0 {
					continue
				}
				for _, b := range fn.Blocks {
					if len(b.Instrs) == 0 {
						continue
					}
					ret, ok := b.Instrs[len(b.Instrs)-1].(*ssa.Return)
					if !ok || len(ret.Results) == 0 {
						continue
					}
					for _, o := range p.origins(ret.Results[0], OriginOpts{}) {
						al := freshNode(o)
						if al == nil || stores[al] == nil {
							continue
						}
						var fields []string
						for f := range stores[al] {
							fields = append(fields, f)
						}
						sort.Strings(fields)
						for _, f := range fields {
							n++
							via := map[ssa.Instruction]bool{}
							for k := range stores[al][f] {
								via[k] = true
							}
							// `if len(n.Attr) > 0 { copy }`: the way around the store is the way on which there is nothing to copy
							eachInstr(fn, func(in ssa.Instruction) {
								ifi, ok := in.(*ssa.If)
								if !ok {
									return
								}
								b, ok := ifi.Cond.(*ssa.BinOp)
								if !ok {
									return
								}
								for _, side := range []ssa.Value{b.X, b.Y} {
									x := side
									if cl := isCallNamed(x, "builtin.len"); cl != nil {
										x = cl.Call.Args[0]
									}
									if fl := loadedField(x); fl != nil && fieldIs(fl, f) {
										via[ifi] = true
									}
								}
							})
							ok := mustPassBefore(fn, ret, via)
							c.check(ok, fmt.Sprintf("%s: fresh node's %s", shortName(fn), f), p.instrPos(ret), "stored on every way to the return", "the copy gets its "+f+" only on some ways (the store sits behind a condition): nodes for which the condition fails — a doctype, whose PUBLIC / SYSTEM identifiers live in Attr; a comment or text node — lose it in every evaluated tree")
						}
					}
				}
			}
		},
	})
}

// freshNode: v is a node the function made itself — an allocation, or the result of a module constructor that
// takes no node (NewNode and the like; the result of another cloner already carries the fields).
func freshNode(v ssa.Value) ssa.Value {
	if !isNamed(v.Type(), "golang.org/x/net/html", "Node") {
		return nil
	}
	switch x := v.(type) {
	case *ssa.Alloc:
		return x
	case *ssa.Call:
		callee := x.Call.StaticCallee()
		if callee == nil || !inModule(callee) {
			return nil
		}
		for _, prm := range callee.Params {
			if isNamed(prm.Type(), "golang.org/x/net/html", "Node") {
				return nil
			}
		}
		return x
	}
	return nil
}

func init() {
	register(&Rule{
		ID: "C02.R18", Props: []string{"C02", "C14"}, Min: 2,
		Doc: "whether an attribute is written is decided by its name, not by its value: in the serialiser's attribute writer (renderAttrs) no condition that looks at an attribute's Val has an edge from which the loop reaches the next attribute without having written anything — `class=\"\"`, `style=\"\"`, `alt=\"\"` are attributes of the template and of the parsed output alike (an attribute evaluated to nothing has been removed by the evaluator before; the serialiser does not second-guess it)",
		Run: func(p *Prog, c *Ctx) {
			fn := p.MustFn("vuego.renderAttrs")
			isWrite := func(in ssa.Instruction) bool {
				ci, ok := in.(ssa.CallInstruction)
				if !ok {
					return false
				}
				nm := calleeName(ci.Common())
				return strings.Contains(nm, ").Write") || strings.HasPrefix(nm, "fmt.Fprint") || nm == "io.WriteString"
			}
			n := 0
			eachInstr(fn, func(in ssa.Instruction) {
				ifi, ok := in.(*ssa.If)
				if !ok {
					return
				}
				n++
				onVal := false
				walkCond(ifi.Cond, func(v ssa.Value) {
					if fl := loadedField(v); fl != nil && fieldIs(fl, "Val") {
						onVal = true
					}
					if f, ok := v.(*ssa.Field); ok {
						if fv := fieldVar(f); fv != nil && fieldIs(fv, "Val") {
							onVal = true
						}
					}
				})
				key := fmt.Sprintf("renderAttrs: condition#%d", n)
				if !onVal {
					c.ok(key, p.instrPos(ifi), "does not look at the attribute's value")
					return
				}
				hdr := loopHeaderOf(ifi.Block())
				for i, succ := range ifi.Block().Succs {
					// a way from this edge to the next round (or out of the function) without a write
					seen := map[*ssa.BasicBlock]bool{}
					var skips func(b *ssa.BasicBlock) bool
					skips = func(b *ssa.BasicBlock) bool {
						if b == hdr {
							return true
						}
						if seen[b] {
							return false
						}
						seen[b] = true
						for _, x := range b.Instrs {
							if isWrite(x) {
								return false
							}
							if _, isRet := x.(*ssa.Return); isRet {
								return true
							}
						}
						for _, s := range b.Succs {
							if skips(s) {
								return true
							}
						}
						return false
					}
					if skips(succ) {
						c.fail(key, p.instrPos(ifi), fmt.Sprintf("the %s edge of a test on the attribute's value reaches the next attribute without writing this one: an attribute whose value is, say, empty is in the template and not in the output", map[int]string{0: "true", 1: "false"}[i]))
						return
					}
				}
				c.ok(key, p.instrPos(ifi), "both edges write the attribute")
			})
		},
	})
}

func init() {
	register(&Rule{
		ID: "C04.R14", Props: []string{"C04", "C17", "C13"}, Min: 2,
		Doc: "a field's value reaches the scope as it is, or as the map of its own fields: what the two converters of struct data (structToMap, PopulateStructFields) store under a field's name comes out of the field itself (reflect.Value.Interface) or out of the conversion of that one value (structToMap / StructToMap) — never out of a list or map the converter builds on the side. A slice of structs that is rebuilt as a slice of maps hands v-for copies whose Go field names, methods and Stringer are gone: `{{ t.Name }}` is empty in every instance, though the same slice inside a map root renders",
		Run: func(p *Prog, c *Ctx) {
			n := 0
			for _, name := range []string{"reflect.structToMap", "reflect.PopulateStructFields"} {
				fn := p.MustFn(name)
				eachInstr(fn, func(in ssa.Instruction) {
					mu, ok := in.(*ssa.MapUpdate)
					if !ok {
						return
					}
					if _, isConst := mu.Key.(*ssa.Const); isConst {
						return
					}
					n++
					bad := ""
					for _, o := range p.origins(unwrapIface(mu.Value), OriginOpts{}) {
						switch x := o.(type) {
						case *ssa.MakeSlice, *ssa.MakeMap:
							bad = "a " + strings.TrimPrefix(fmt.Sprintf("%T", x), "*ssa.Make") + " built in the converter"
						case *ssa.Alloc:
							if _, isArr := x.Type().(*types.Pointer).Elem().Underlying().(*types.Array); isArr {
								bad = "a list built in the converter"
							}
						case *ssa.Slice:
							bad = "a list built in the converter"
						}
					}
					c.check(bad == "", fmt.Sprintf("%s: value stored for a field#%d", shortName(fn), n), p.instrPos(mu), "the field's own value or its own conversion", "the converter stores "+bad+" under the field's name: the items of a collection are replaced by converted copies (maps keyed by JSON tag), so an instance of v-for no longer sees the item itself — Go field names, methods and the Stringer of the item are lost")
				})
			}
		},
	})

	register(&Rule{
		ID: "C05.R16", Props: []string{"C05", "C06", "C11"}, Min: 1,
		Doc: "an include is refused for the depth of the chain only: the include evaluator (evalInclude, evalTemplate) reads ctx.TemplateStack for its length (the depth bound), to extend it (WithTemplate) and to print it in a message — it does not look at the names in it. A component may legitimately be inside itself: a card in the slot content of a card, a tree node that includes itself while the data has children; `is this file already in the chain` turns both into `circular include` errors",
		Run: func(p *Prog, c *Ctx) {
			n := 0
			for _, name := range []string{"(*vuego.Vue).evalInclude", "(*vuego.Vue).evalTemplate"} {
				fn := p.MustFn(name)
				walkFuncTree(fn, func(f *ssa.Function) {
					eachInstr(f, func(in ssa.Instruction) {
						var v ssa.Value
						switch x := in.(type) {
						case *ssa.Field:
							if fv := fieldVar(x); fv != nil && fieldIs(fv, "TemplateStack") {
								v = x
							}
						case *ssa.UnOp:
							if fl := loadedField(x); fl != nil && fieldIs(fl, "TemplateStack") {
								v = x
							}
						}
						if v == nil || v.Referrers() == nil {
							return
						}
						for _, u := range *v.Referrers() {
							n++
							key := fmt.Sprintf("%s: use of ctx.TemplateStack#%d", shortName(fn), n)
							switch x := u.(type) {
							case ssa.CallInstruction:
								nm := calleeName(x.Common())
								if nm == "builtin.len" {
									c.ok(key, p.instrPos(u), "its length")
									continue
								}
								c.fail(key, p.instrPos(u), "the names in the include chain are handed to "+nm+": the include evaluator decides by what is in the chain, not by how long it is — a component inside its own slot content, or a tree component that includes itself, is refused as circular")
							case *ssa.DebugRef:
							default:
								c.fail(key, p.instrPos(u), "the names in the include chain are read ("+describeValue(u.(ssa.Value))+"): the include evaluator decides by what is in the chain, not by how long it is")
							}
						}
					})
				})
			}
		},
	})
}

func init() {
	register(&Rule{
		ID: "C13.R27", Props: []string{"C13", "C14"}, Min: 2,
		Doc: "quotes are removed by position, never by character set: no strings.Trim / TrimLeft / TrimRight in the engine is given a cutset that contains a quote character. A string literal loses exactly its two delimiters (arg[1:len-1] after both were compared); Trim(arg, `\"'`) also eats the quotes that belong to the text — default('say \"hi\"') becomes `say \"hi`, join('\"x\"') gets x — and an evaluated value has no delimiters at all: font-family: 'Fira Code', monospace loses its opening quote",
		Run: func(p *Prog, c *Ctx) {
			n := 0
			for _, fn := range p.liveFuncs() {
				if pk := funcPkg(fn); pk == nil || strings.Contains(pk.Path(), "/cmd/") {
					continue
				}
				for _, site := range callsIn(fn) {
					nm := calleeName(site.Common())
					switch nm {
					case "strings.Trim", "strings.TrimLeft", "strings.TrimRight", "bytes.Trim", "bytes.TrimLeft", "bytes.TrimRight":
					default:
						continue
					}
					cut, ok := constString(site.Common().Args[1])
					if !ok {
						continue
					}
					n++
					c.check(!strings.ContainsAny(cut, "\"'`"), fmt.Sprintf("%s: %s(…, %q)#%d", shortName(rootFunc(fn)), nm, cut, n), p.instrPos(site), "no quote in the cutset", fmt.Sprintf("%s removes every leading and trailing character of the set %q: besides a delimiting pair it eats the quotes that are part of the text (a literal that starts or ends with the other quote character; an evaluated value such as a font name or a CSS string)", nm, cut))
				}
			}
		},
	})
}

func init() {
	register(&Rule{
		ID: "C09.R11", Props: []string{"C09", "C06", "C10"}, Min: 1,
		Doc: "an object that a package-level variable points to is shared by every render of the process and is read-only: each read of a package-level variable of pointer type (to one of the module's own structs) is followed — through the functions that return it, the locals it is assigned to, the calls it is passed to — and no field or map of the object is written through it. A `noSlots` singleton returned instead of a fresh SlotScope `to save an allocation` is written by the include evaluator (`scope.outer = …`, SetSlot for inherited slots): one request's slot content turns up in another's page, and two requests race",
		Run: func(p *Prog, c *Ctx) {
			t := newROTaint(p)
			seeds := 0
			for _, fn := range p.liveFuncs() {
				if pk := funcPkg(fn); pk == nil || strings.Contains(pk.Path(), "/cmd/") {
					continue
				}
				eachInstr(fn, func(in ssa.Instruction) {
					ld, ok := in.(*ssa.UnOp)
					if !ok || ld.Op != token.MUL {
						return
					}
					g, ok := ld.X.(*ssa.Global)
					if !ok || g.Pkg == nil || g.Pkg.Pkg == nil || !strings.HasPrefix(g.Pkg.Pkg.Path(), modPath) {
						return
					}
					pt, ok := ld.Type().(*types.Pointer)
					if !ok {
						return
					}
					nt, ok := pt.Elem().(*types.Named)
					if !ok || nt.Obj().Pkg() == nil || !strings.HasPrefix(nt.Obj().Pkg().Path(), modPath) {
						return
					}
					st, ok := nt.Underlying().(*types.Struct)
					if !ok {
						return
					}
					// an object that carries its own lock synchronises its writers (caches): C09.R1 / C09.R4 look at those
					for i := 0; i < st.NumFields(); i++ {
						if pk, _ := namedType(st.Field(i).Type()); pk == "sync" {
							return
						}
					}
					seeds++
					t.seed(ld, "the object package-level variable "+g.Name()+" points to, read at "+p.instrPos(ld))
				})
			}
			t.run()
			c.ok("package-level objects followed", "-", fmt.Sprintf("%d reads of package-level pointers to module structs followed to all uses", seeds))
			for _, vi := range t.viol {
				c.fail(fmt.Sprintf("%s: %s through a package-level object", shortName(vi.at.Parent()), vi.what), p.instrPos(vi.at), vi.what+" on an object shared by the whole process: "+shortWhy(vi.why)+" — what one render stores there every other render reads, and concurrent renders race on it")
			}
		},
	})
}

func init() {
	register(&Rule{
		ID: "C07.R13", Props: []string{"C07"}, Min: 1,
		Doc: "whether a page gets the default layout does not depend on whether it has a front-matter block: in Template.Render the probe for layouts/base.vuego (and the layout render behind it) is decided by the layout name alone — no condition on the way to the probe looks at the template's frontMatter map (nil for a file without a `---` block, empty for an empty block). A page without front-matter is the commonest kind of page; guarded by `frontMatter != nil` it is written bare while its neighbours get the base layout",
		Run: func(p *Prog, c *Ctx) {
			fn := p.MustFn("(*vuego.template).Render")
			n := 0
			for _, site := range callsIn(fn) {
				nm := calleeName(site.Common())
				if !strings.HasSuffix(nm, ".Stat") && !strings.HasSuffix(nm, ").layout") {
					continue
				}
				if strings.HasSuffix(nm, ".Stat") {
					isProbe := false
					for _, a := range site.Common().Args {
						if s, ok := constString(a); ok && strings.Contains(s, "layouts/") {
							isProbe = true
						}
					}
					if !isProbe {
						continue
					}
				}
				n++
				bad := ""
				for _, g := range controllingIfs(site) {
					for _, leaf := range condLeaves(g.If.Cond) {
						walkCond(leaf, func(v ssa.Value) {
							if fl := loadedField(v); fl != nil && fieldIs(fl, "frontMatter") {
								bad = p.instrPos(g.If)
							}
						})
					}
				}
				c.check(bad == "", fmt.Sprintf("Render: %s#%d is decided by the layout name alone", strings.TrimPrefix(nm, "(*vuego."), n), p.instrPos(site), "no condition on the way looks at the front-matter map", "the condition at "+bad+" looks at the template's front-matter map before the default layout is probed / applied: a page without a front-matter block (a nil map) skips layouts/base.vuego and everything chained behind it")
			}
		},
	})
}

func init() {
	register(&Rule{
		ID: "C19.R20", Props: []string{"C19", "C02"}, Min: 1,
		Doc: "an attribute value is normalised over HTML whitespace only: the formatter's attribute-value normaliser (helpers.FormatAttr and what it calls in the module) uses none of strings.TrimSpace, strings.Fields, unicode.IsSpace (directly or as the predicate of TrimFunc / FieldsFunc) — they count U+00A0 (&nbsp;), U+2003, U+3000 … as blank. `title=\"10&nbsp;km\"`, `placeholder=\"姓　名\"` and a value that begins with &nbsp; mean what they say; collapsed to an ordinary blank, or trimmed, the formatted document says something else",
		Run: func(p *Prog, c *Ctx) {
			fn := p.MustFn("helpers.FormatAttr")
			n := 0
			// the normaliser and the module functions it calls by name (closures included)
			set := map[*ssa.Function]bool{}
			var add func(f *ssa.Function)
			add = func(f *ssa.Function) {
				if f == nil || set[f] || !inModule(f) {
					return
				}
				set[f] = true
				for _, af := range f.AnonFuncs {
					add(af)
				}
				for _, site := range callsIn(f) {
					add(site.Common().StaticCallee())
				}
			}
			add(fn)
			for _, g := range sortedFuncs(set) {
				for _, site := range callsIn(g) {
					nm := calleeName(site.Common())
					bad := ""
					switch nm {
					case "strings.TrimSpace", "strings.Fields", "unicode.IsSpace", "bytes.TrimSpace", "bytes.Fields":
						bad = nm
					}
					for _, a := range site.Common().Args {
						if f, ok := a.(*ssa.Function); ok && f.String() == "unicode.IsSpace" {
							bad = nm + "(…, unicode.IsSpace)"
						}
					}
					n++
					if bad != "" {
						c.fail(fmt.Sprintf("%s: %s", shortName(g), bad), p.instrPos(site), bad+" treats every Unicode space as blank: a no-break space, an em space or an ideographic space inside (or at the edge of) an attribute value is replaced by an ordinary blank or removed — the formatted document carries another value")
					}
				}
				c.ok(shortName(g)+": whitespace functions", p.pos(g.Pos()), "no Unicode-aware whitespace function")
			}
		},
	})
}

func init() {
	register(&Rule{
		ID: "C14.R19", Props: []string{"C14", "C03"}, Min: 1,
		Doc: "an element has one style attribute: the functions that hide an element (evalVShow, setStyleProperty) change the style through the helper that replaces an existing attribute (helpers.SetAttr / AppendAttr); where they append to the element's attribute list themselves, every way to the append has looked for an attribute of that name (a comparison of an attribute's Key, or helpers.HasAttr) — `GetAttr(n, \"style\") == \"\"` is also true for style=\"\" and for a style interpolated to nothing, and a second style attribute appended there is dropped by every HTML parser: the element stays visible",
		Run: func(p *Prog, c *Ctx) {
			p.MustFn("(*vuego.Vue).evalVShow")
			for _, name := range []string{"(*vuego.Vue).evalVShow", "(*vuego.Vue).setStyleProperty"} {
				fn := p.Fn(name)
				if fn == nil {
					continue // the helper was folded into evalVShow: its code is examined there
				}
				via := map[ssa.Instruction]bool{}
				eachInstr(fn, func(in ssa.Instruction) {
					switch x := in.(type) {
					case *ssa.BinOp:
						for _, side := range []ssa.Value{x.X, x.Y} {
							if fl := loadedField(side); fl != nil && fieldIs(fl, "Key") {
								via[in] = true
							}
							if f, ok := side.(*ssa.Field); ok {
								if fv := fieldVar(f); fv != nil && fieldIs(fv, "Key") {
									via[in] = true
								}
							}
						}
					case ssa.CallInstruction:
						if nm := calleeName(x.Common()); nm == "helpers.HasAttr" {
							via[in] = true
						}
					}
				})
				n := 0
				for _, site := range callsIn(fn) {
					if calleeName(site.Common()) != "builtin.append" {
						continue
					}
					if fl := loadedField(site.Common().Args[0]); fl == nil || !fieldIs(fl, "Attr") {
						continue
					}
					n++
					c.check(mustPassBefore(fn, site, via), fmt.Sprintf("%s: append to the element's attributes#%d", shortName(fn), n), p.instrPos(site), "every way to the append looked for the attribute by name", "an attribute is appended to the element on a way on which nothing looked whether the element has an attribute of that name already (an empty value is not a missing attribute): the element gets two style attributes, the parser keeps the first, and the element that v-show hides stays visible")
				}
				c.ok(shortName(fn)+": attribute appends examined", p.pos(fn.Pos()), fmt.Sprintf("%d direct appends; the rest goes through the replacing helper", n))
			}
		},
	})
}

func init() {
	register(&Rule{
		ID: "C01.R12", Props: []string{"C01"}, Min: 1,
		Doc: "an element's attributes are interpolated once: in evaluate() no node that was handed to evalTemplate — whose include branch evaluates the tag's attributes in place — reaches evalAttributes afterwards, neither itself nor as a copy made by one of the cloners (a clone of an evaluated node carries evaluated values). `<template include v-keep label=\"{{ x }}\">` whose kept copy is run through evalAttributes interpolates the *value* of x a second time: `{{ secret }}` inside the data is evaluated against the scope",
		Run: func(p *Prog, c *Ctx) {
			fn := p.MustFn("(*vuego.Vue).evaluate")
			// the source nodes a value stands for: through cloners (module functions from a node to a node)
			roots := func(v ssa.Value) map[ssa.Value]bool {
				out := map[ssa.Value]bool{}
				seen := map[ssa.Value]bool{}
				var walk func(v ssa.Value, d int)
				walk = func(v ssa.Value, d int) {
					if v == nil || seen[v] || d > 6 {
						return
					}
					seen[v] = true
					for _, o := range p.origins(v, OriginOpts{}) {
						if cl, ok := o.(*ssa.Call); ok {
							if callee := cl.Call.StaticCallee(); callee != nil && inModule(callee) && isNamed(cl.Type(), "golang.org/x/net/html", "Node") {
								cloner := false
								for _, a := range callArgs(&cl.Call) {
									if isNamed(a.Type(), "golang.org/x/net/html", "Node") {
										cloner = true
										walk(a, d+1)
									}
								}
								if cloner {
									continue
								}
							}
						}
						out[o] = true
					}
				}
				walk(v, 0)
				return out
			}
			// the nodes in a []*html.Node argument written as a literal
			elems := func(v ssa.Value) []ssa.Value {
				var out []ssa.Value
				for _, o := range append(p.origins(v, OriginOpts{}), v) {
					sl, ok := o.(*ssa.Slice)
					if !ok {
						continue
					}
					al, ok := sl.X.(*ssa.Alloc)
					if !ok || al.Referrers() == nil {
						continue
					}
					for _, r := range *al.Referrers() {
						ia, ok := r.(*ssa.IndexAddr)
						if !ok || ia.Referrers() == nil {
							continue
						}
						for _, rr := range *ia.Referrers() {
							if st, ok := rr.(*ssa.Store); ok {
								out = append(out, st.Val)
							}
						}
					}
				}
				return out
			}
			type tcall struct {
				at    ssa.Instruction
				nodes map[ssa.Value]bool
			}
			var ts []tcall
			var as []ssa.CallInstruction
			walkFuncTree(fn, func(f *ssa.Function) {
				for _, site := range callsIn(f) {
					switch calleeName(site.Common()) {
					case "(*vuego.Vue).evalTemplate":
						t := tcall{at: site, nodes: map[ssa.Value]bool{}}
						for _, a := range callArgs(site.Common()) {
							if isNamed(a.Type(), "golang.org/x/net/html", "Node") {
								for r := range roots(a) {
									t.nodes[r] = true
								}
							}
							for _, e := range elems(a) {
								for r := range roots(e) {
									t.nodes[r] = true
								}
							}
						}
						ts = append(ts, t)
					case "(*vuego.Vue).evalAttributes":
						as = append(as, site)
					}
				}
			})
			if len(ts) == 0 || len(as) == 0 {
				undecided("evaluate no longer calls evalTemplate and evalAttributes")
			}
			for i, a := range as {
				bad := ""
				for _, arg := range callArgs(a.Common()) {
					if !isNamed(arg.Type(), "golang.org/x/net/html", "Node") {
						continue
					}
					for r := range roots(arg) {
						for _, t := range ts {
							if t.nodes[r] && t.at.Parent() == a.Parent() && canFollowSameRound(t.at, a) {
								bad = p.instrPos(t.at)
							}
						}
					}
				}
				c.check(bad == "", fmt.Sprintf("evaluate: evalAttributes#%d gets a node no evaluator has seen", i+1), p.instrPos(a), "not (a copy of) a node that went through evalTemplate", "the node (or a clone of it) was handed to evalTemplate at "+bad+" before: its attributes hold evaluated data already, and this second pass interpolates and evaluates that data as template text")
			}
		},
	})
}

func init() {
	register(&Rule{
		ID: "C09.R12", Props: []string{"C09", "C10", "C03"}, Min: 1,
		Doc: "a DOM the caller hands in is the caller's: the node arguments of the exported render entries (Vue.RenderNodes and whatever else takes []*html.Node / *html.Node from outside) are followed through the engine, and nothing is written through them — evaluation numbers v-once elements, resolves component tags and evaluates the attributes of include tags *in place*, so it has to run on a private deep copy. Evaluated in place, the second render of the same parsed DOM sees `:on=\"flag\"` replaced by the first render's `on=\"true\"`: every chain, v-show and :class inside the component follows the first render's data",
		Run: func(p *Prog, c *Ctx) {
			t := newROTaint(p)
			seeds := 0
			for _, fn := range p.renderEntries() {
				if !token.IsExported(fn.Name()) {
					continue
				}
				for _, prm := range fn.Params {
					pt := prm.Type()
					if sl, ok := pt.Underlying().(*types.Slice); ok {
						pt = sl.Elem()
					}
					if !isNamed(pt, "golang.org/x/net/html", "Node") {
						continue
					}
					seeds++
					t.seed(prm, fmt.Sprintf("the caller's %s passed to %s", prm.Name(), shortName(fn)))
				}
			}
			if seeds == 0 {
				undecided("no exported render entry takes DOM nodes")
			}
			t.run()
			c.ok("caller's nodes followed", "-", fmt.Sprintf("%d node parameters of exported render entries followed to all uses", seeds))
			for _, vi := range t.viol {
				c.fail(fmt.Sprintf("%s: %s through the caller's nodes", shortName(vi.at.Parent()), vi.what), p.instrPos(vi.at), vi.what+" on a node that belongs to the caller: "+shortWhy(vi.why)+" — the next render of the same DOM starts from what this render left in it")
			}
		},
	})
}

func init() {
	register(&Rule{
		ID: "C14.R20", Props: []string{"C14", "C03", "C13"}, Min: 1,
		Doc: "the key of an object item ends at the first colon after it: objectKeyEnd finds the separating colon with a first-match search (strings.Index / IndexByte / Cut on the text behind a quoted key), or with a scan that leaves at the first colon it meets outside quotes — never with LastIndex, and never with a scan that goes on after a match and keeps the last one. The value of an item is an expression and has colons of its own (`{on: pick ? a : b}`, `{n: xs[1:]}`): cut at the last colon, the key becomes `on: pick ? a` and the class follows the truthiness of b alone",
		Run: func(p *Prog, c *Ctx) {
			fn := p.MustFn("vuego.objectKeyEnd")
			n := 0
			for _, site := range callsIn(fn) {
				nm := calleeName(site.Common())
				if !strings.HasPrefix(nm, "strings.") || len(site.Common().Args) < 2 {
					continue
				}
				isColon := false
				if s, ok := constString(site.Common().Args[1]); ok && s == ":" {
					isColon = true
				}
				if k, ok := constInt(site.Common().Args[1]); ok && k == ':' {
					isColon = true
				}
				if !isColon {
					continue
				}
				n++
				c.check(!strings.Contains(nm, "Last"), fmt.Sprintf("objectKeyEnd: %s(…, \":\")#%d", nm, n), p.instrPos(site), "first-match search", nm+" finds the last colon of the item: a value with a colon of its own (a ternary, a slice expression, a map literal) is cut in the wrong place")
			}
			eachInstr(fn, func(in ssa.Instruction) {
				b, ok := in.(*ssa.BinOp)
				if !ok || b.Op != token.EQL || b.Referrers() == nil {
					return
				}
				k, isK := constInt(b.Y)
				if !isK {
					k, isK = constInt(b.X)
				}
				if !isK || k != ':' {
					return
				}
				for _, r := range *b.Referrers() {
					ifi, ok := r.(*ssa.If)
					if !ok {
						continue
					}
					n++
					// from the edge on which a colon was found, no way back into the scan
					back := false
					seen := map[*ssa.BasicBlock]bool{}
					var walk func(x *ssa.BasicBlock)
					walk = func(x *ssa.BasicBlock) {
						if seen[x] || back {
							return
						}
						seen[x] = true
						if x == ifi.Block() || (x.Dominates(ifi.Block()) && x != ifi.Block().Succs[0]) {
							back = true
							return
						}
						for _, s := range x.Succs {
							walk(s)
						}
					}
					walk(ifi.Block().Succs[0])
					c.check(!back, fmt.Sprintf("objectKeyEnd: scan leaves at the first colon#%d", n), p.instrPos(ifi), "the match edge does not return to the scan", "the scan goes on after it met a colon and ends up with a later one: a value with a colon of its own (a ternary, a slice expression) is cut in the wrong place — the item's key swallows half of the expression and the class / style follows the wrong operand")
				}
			})
		},
	})
}

func init() {
	register(&Rule{
		ID: "C10.R12", Props: []string{"C10", "C04"}, Min: 1,
		Doc: "the order of map keys is total: where mapKeyLess falls back on the *printed form* of two keys, that comparison decides only when the forms differ (`if ta != tb { return ta < tb }`), and something else — the keys' dynamic types — decides the rest. Distinct keys print alike (1 and \"1\", 1 and int64(1), true and \"true\" in a map[any]any); a comparison that calls them equal leaves their order to sort.Slice, which is not stable and starts from Go's random map order: v-for and keys() / values() give several outputs for one input",
		Run: func(p *Prog, c *Ctx) {
			fn := p.MustFn("vuego.mapKeyLess")
			printed := func(v ssa.Value) bool {
				for _, o := range p.origins(v, OriginOpts{}) {
					if cl, ok := o.(*ssa.Call); ok {
						nm := calleeName(&cl.Call)
						if nm == "helpers.Sprint" || nm == "vuego.mapKeyText" || strings.HasPrefix(nm, "fmt.Sprint") {
							return true
						}
					}
				}
				return false
			}
			n := 0
			eachInstr(fn, func(in ssa.Instruction) {
				b, ok := in.(*ssa.BinOp)
				if !ok || (b.Op != token.LSS && b.Op != token.GTR) || !isString(b.X.Type()) || !printed(b.X) || !printed(b.Y) {
					return
				}
				n++
				guarded := guardedBy(b.Block(), func(cnd ssa.Value, want bool) bool {
					g, ok := cnd.(*ssa.BinOp)
					if !ok {
						return false
					}
					same := (g.X == b.X && g.Y == b.Y) || (g.X == b.Y && g.Y == b.X)
					return same && ((g.Op == token.NEQ && want) || (g.Op == token.EQL && !want))
				})
				c.check(guarded, fmt.Sprintf("mapKeyLess: comparison of printed forms#%d decides only when they differ", n), p.instrPos(b), "under `ta != tb`; equal forms go on to another criterion", "keys are ordered by their printed form alone: two distinct keys that print alike compare as equal in both directions, and their order is whatever the unstable sort makes of Go's random map order — equal inputs render differently")
			})
			if n == 0 {
				c.ok("mapKeyLess: no comparison of printed forms", p.pos(fn.Pos()), "keys are not ordered by their printed form")
			}
		},
	})
}

func init() {
	register(&Rule{
		ID: "C20.R17", Props: []string{"C20", "C12"}, Min: 5,
		Doc: "the Markdown renderer hands its errors on: every call, in a function of the markdown package, of a module function that returns an error — rendering a child, rendering a block's template, loading an embedded template — passes that error to its own caller (flow), and from the edge on which it was found non-nil no way goes on with the next node or returns nil (paths). A child that fails to render must fail the document, not leave a hole in it",
		Run: func(p *Prog, c *Ctx) {
			var scope []*ssa.Function
			for _, fn := range p.liveFuncs() {
				if pk := funcPkg(fn); pk != nil && pk.Path() == markdownPkg {
					res := fn.Signature.Results()
					if res.Len() > 0 && isErrorType(res.At(res.Len()-1).Type()) {
						scope = append(scope, fn)
					}
				}
			}
			p.errorDiscipline(c, scope, markdownSwallowTable)
		},
	})

	register(&Rule{
		ID: "C19.R21", Props: []string{"C19", "C12"}, Min: 3,
		Doc: "the formatter hands its errors on: every call, in a function of the formatter package, of a module function that returns an error (parsing the source, formatting a fragment or a document, writing a node) passes that error to its own caller, and from the edge on which it was found non-nil no way goes on or returns nil — a source the parser rejects must not come back as an empty or half-formatted document with a nil error",
		Run: func(p *Prog, c *Ctx) {
			var scope []*ssa.Function
			for _, fn := range p.liveFuncs() {
				if pk := funcPkg(fn); pk != nil && strings.HasSuffix(pk.Path(), "/formatter") {
					res := fn.Signature.Results()
					if res.Len() > 0 && isErrorType(res.At(res.Len()-1).Type()) {
						scope = append(scope, fn)
					}
				}
			}
			p.errorDiscipline(c, scope, formatterSwallowTable)
		},
	})
}

// calls whose error is answered by a documented fallback, in the markdown and the formatter package
var markdownSwallowTable = map[string]string{}
var formatterSwallowTable = map[string]string{}

func init() {
	register(&Rule{
		ID: "C11.R20", Props: []string{"C11"}, Min: 10,
		Doc: "no write into a map that may be the nil map: for every map update in the module, the map that is written does not come — on any way — from the nil constant (a `var m map[K]V` that some branch leaves unassigned, a φ of nil and make). Assignment to an entry of a nil map is a run-time panic, and no render path recovers from a panic",
		Run: func(p *Prog, c *Ctx) {
			n := 0
			for _, fn := range p.liveFuncs() {
				if pk := funcPkg(fn); pk == nil || strings.Contains(pk.Path(), "/cmd/") {
					continue
				}
				k := 0
				eachInstr(fn, func(in ssa.Instruction) {
					mu, ok := in.(*ssa.MapUpdate)
					if !ok {
						return
					}
					if _, isMap := mu.Map.Type().Underlying().(*types.Map); !isMap {
						return
					}
					n++
					k++
					bad := false
					for _, o := range append(p.origins(mu.Map, OriginOpts{}), mu.Map) {
						if isNilConst(o) {
							bad = true
						}
					}
					// … unless the write is guarded by `m != nil`
					if bad && guardedBy(mu.Block(), func(cnd ssa.Value, want bool) bool {
						b, ok := cnd.(*ssa.BinOp)
						if !ok || !(isNilConst(b.X) || isNilConst(b.Y)) {
							return false
						}
						x := b.X
						if isNilConst(x) {
							x = b.Y
						}
						return sameValue(x, mu.Map) && ((b.Op == token.NEQ && want) || (b.Op == token.EQL && !want))
					}) {
						bad = false
					}
					c.check(!bad, fmt.Sprintf("%s: map update#%d", shortName(fn), k), p.instrPos(mu), "the map is made before it is written", "on some way the map that is written here is the nil map (declared and never made): assignment to an entry of a nil map panics, and the panic escapes the render call")
				})
			}
		},
	})

	register(&Rule{
		ID: "C11.R21", Props: []string{"C11", "C13"}, Min: 5,
		Doc: "a position that may be -1 is not used as one: wherever the result of strings.Index / IndexByte / IndexRune / IndexAny / LastIndex… (or the bytes equivalents) is used as an index or as a bound of a slice expression, a comparison of that result with 0 or -1 controls the use (`if i >= 0`, `if i < 0 { return }`, `if i == -1 { … }`, `i != -1`). s[:strings.Index(s, \":\")] on text without a colon is a slice-bounds panic in the middle of a render",
		Run: func(p *Prog, c *Ctx) {
			n := 0
			isIndexFn := func(nm string) bool {
				for _, pre := range []string{"strings.Index", "strings.LastIndex", "bytes.Index", "bytes.LastIndex"} {
					if strings.HasPrefix(nm, pre) {
						return true
					}
				}
				return false
			}
			// module functions that answer with a position or -1 (their single int result comes, on some way, from one
			// of the searches above or is the constant -1): objectKeyEnd, findClosingBrace, …
			posFn := map[*ssa.Function]bool{}
			for _, fn := range p.liveFuncs() {
				res := fn.Signature.Results()
				if res.Len() != 1 {
					continue
				}
				if b, ok := res.At(0).Type().Underlying().(*types.Basic); !ok || b.Kind() != types.Int {
					continue
				}
				for _, r := range returnsOf(fn) {
					for _, o := range append(p.origins(r.Results[0], OriginOpts{}), r.Results[0]) {
						if k, ok := constInt(o); ok && k == -1 {
							posFn[fn] = true
						}
						if cl, ok := o.(*ssa.Call); ok && isIndexFn(calleeName(&cl.Call)) {
							posFn[fn] = true
						}
					}
				}
			}
			for _, fn := range p.liveFuncs() {
				if pk := funcPkg(fn); pk == nil || strings.Contains(pk.Path(), "/cmd/") {
					continue
				}
				k := 0
				for _, site := range callsIn(fn) {
					cv, ok := site.(*ssa.Call)
					if !ok || cv.Referrers() == nil {
						continue
					}
					if callee := cv.Call.StaticCallee(); !isIndexFn(calleeName(&cv.Call)) && !(callee != nil && posFn[callee]) {
						continue
					}
					// uses as a position: directly, or through i+k / i-k / a φ
					var uses []ssa.Instruction
					seen := map[ssa.Value]bool{}
					var walk func(v ssa.Value, d int)
					walk = func(v ssa.Value, d int) {
						if seen[v] || d > 3 || v.Referrers() == nil {
							return
						}
						seen[v] = true
						for _, u := range *v.Referrers() {
							switch x := u.(type) {
							case *ssa.Slice:
								if x.Low == v || x.High == v || x.Max == v {
									uses = append(uses, x)
								}
							case *ssa.IndexAddr:
								if x.Index == v {
									uses = append(uses, x)
								}
							case *ssa.Index:
								if x.Index == v {
									uses = append(uses, x)
								}
							case *ssa.BinOp:
								if x.Op == token.ADD || x.Op == token.SUB {
									if _, isC := constInt(x.Y); isC && x.X == v {
										walk(x, d+1)
									}
								}
							case *ssa.Phi:
								walk(x, d+1)
							}
						}
					}
					walk(cv, 0)
					if len(uses) == 0 {
						continue
					}
					// some comparison of the result with a constant controls the use
					cmpOf := func(cnd ssa.Value) bool {
						b, ok := cnd.(*ssa.BinOp)
						if !ok {
							return false
						}
						switch b.Op {
						case token.EQL, token.NEQ, token.LSS, token.LEQ, token.GTR, token.GEQ:
						default:
							return false
						}
						_, cy := constInt(b.Y)
						_, cx := constInt(b.X)
						return (sameValue(b.X, cv) && cy) || (sameValue(b.Y, cv) && cx) || (seen[b.X] && cy) || (seen[b.Y] && cx)
					}
					for _, u := range uses {
						n++
						k++
						ok := false
						for _, g := range controllingIfs(u) {
							for _, leaf := range condLeaves(g.If.Cond) {
								if cmpOf(leaf) {
									ok = true
								}
							}
						}
						if !ok {
							ok = guardedBy(u.Block(), func(cnd ssa.Value, want bool) bool { return cmpOf(cnd) })
						}
						c.check(ok, fmt.Sprintf("%s: position from %s#%d", shortName(fn), calleeName(&cv.Call), k), p.instrPos(u), "a comparison of the result with 0 / -1 controls the use", "the result of "+calleeName(&cv.Call)+" is used as an index / slice bound without having been compared with -1 or 0: when the text does not contain what is searched, the position is -1 and the access panics (slice bounds out of range) — no render path recovers")
					}
				}
			}
		},
	})
}

func init() {
	register(&Rule{
		ID: "C11.R22", Props: []string{"C11", "C15"}, Min: 3,
		Doc: "what a map lookup may not have found is not dereferenced: where the module reads a pointer out of a map (a cache entry, a slot, a registered object) the pointer is used — a field read, a method called on it — only behind the comma-ok answer of that lookup or a comparison of the pointer with nil. `e := cache[name]; return e.dom` for a name that is not cached is a nil-pointer panic in the middle of a render; and integer division or remainder by a value that is not a non-zero constant is guarded by a comparison of the divisor with zero",
		Run: func(p *Prog, c *Ctx) {
			n := 0
			for _, fn := range p.liveFuncs() {
				if pk := funcPkg(fn); pk == nil || strings.Contains(pk.Path(), "/cmd/") {
					continue
				}
				k := 0
				eachInstr(fn, func(in ssa.Instruction) {
					switch x := in.(type) {
					case *ssa.Lookup:
						mt, ok := x.X.Type().Underlying().(*types.Map)
						if !ok {
							return
						}
						if _, isPtr := mt.Elem().Underlying().(*types.Pointer); !isPtr {
							return
						}
						var val ssa.Value = x
						var okv ssa.Value
						if x.CommaOk {
							val = nil
							if x.Referrers() != nil {
								for _, r := range *x.Referrers() {
									if ex, ok := r.(*ssa.Extract); ok {
										if ex.Index == 0 {
											val = ex
										} else {
											okv = ex
										}
									}
								}
							}
						}
						if val == nil || val.Referrers() == nil {
							return
						}
						for _, u := range *val.Referrers() {
							deref := false
							switch y := u.(type) {
							case *ssa.FieldAddr:
								deref = y.X == val
							case *ssa.UnOp:
								deref = y.Op == token.MUL && y.X == val
							case ssa.CallInstruction:
								cc := y.Common()
								deref = !cc.IsInvoke() && len(cc.Args) > 0 && cc.Args[0] == val && cc.Signature().Recv() != nil
							}
							if !deref {
								continue
							}
							n++
							k++
							checked := guardedBy(u.Block(), func(cnd ssa.Value, want bool) bool {
								if okv != nil && cnd == okv && want {
									return true
								}
								b, ok := cnd.(*ssa.BinOp)
								if !ok {
									return false
								}
								if !((b.X == val && isNilConst(b.Y)) || (b.Y == val && isNilConst(b.X))) {
									return false
								}
								return (b.Op == token.NEQ && want) || (b.Op == token.EQL && !want)
							})
							c.check(checked, fmt.Sprintf("%s: pointer read out of a map#%d", shortName(fn), k), p.instrPos(u), "used behind the comma-ok answer or a nil test", "a pointer read out of a map is dereferenced on a way on which neither the lookup's ok nor a comparison with nil was consulted: for a key that is not in the map the pointer is nil and the use panics")
						}
					case *ssa.BinOp:
						if x.Op != token.QUO && x.Op != token.REM {
							return
						}
						if b, ok := x.Type().Underlying().(*types.Basic); !ok || b.Info()&types.IsInteger == 0 {
							return
						}
						if kv, ok := constInt(x.Y); ok && kv != 0 {
							return
						}
						n++
						k++
						checked := false
						cmpZero := func(cnd ssa.Value) bool {
							b, ok := cnd.(*ssa.BinOp)
							if !ok {
								return false
							}
							kx, cx := constInt(b.X)
							ky, cy := constInt(b.Y)
							return (sameValue(b.X, x.Y) && cy && ky >= 0 && ky <= 1) || (sameValue(b.Y, x.Y) && cx && kx >= 0 && kx <= 1)
						}
						for _, g := range controllingIfs(x) {
							for _, leaf := range condLeaves(g.If.Cond) {
								if cmpZero(leaf) {
									checked = true
								}
							}
						}
						// the length of something that was found non-empty
						if cl := isCallNamed(x.Y, "builtin.len"); cl != nil && !checked {
							for _, g := range controllingIfs(x) {
								for _, leaf := range condLeaves(g.If.Cond) {
									if b, ok := leaf.(*ssa.BinOp); ok {
										for _, side := range []ssa.Value{b.X, b.Y} {
											if c2 := isCallNamed(side, "builtin.len"); c2 != nil && sameValue(c2.Call.Args[0], cl.Call.Args[0]) {
												checked = true
											}
										}
									}
								}
							}
						}
						c.check(checked, fmt.Sprintf("%s: integer division#%d", shortName(fn), k), p.instrPos(x), "the divisor was compared with zero", "an integer is divided by a value that no comparison with zero controls: for a divisor of 0 (an empty collection, a data value) the operation panics")
					}
				})
			}
		},
	})
}

func init() {
	register(&Rule{
		ID: "C11.R23", Props: []string{"C11", "C17"}, Min: 1,
		Doc: "struct data is converted in time linear in its size: the recursive struct → map converter remembers what it has converted — a map from the struct's address to the finished result that is consulted before a struct's fields are walked (a hit returns the stored result) and filled when they have been — besides the set of addresses on the current path, which only ends cycles. With the path set alone a struct that is reachable over k paths is converted k times: a chain of n nodes whose two fields point at the same next node has 2^n paths; 23 such structs exhaust the memory before the template is looked at",
		Run: func(p *Prog, c *Ctx) {
			fn := p.MustFn("reflect.structToMap")
			var isAddr func(v ssa.Value) bool
			isAddr = func(v ssa.Value) bool {
				// an address, or a key that holds one next to the type (C17.R23)
				switch k := v.Type().Underlying().(type) {
				case *types.Basic:
					if k.Kind() == types.Uintptr {
						return true
					}
				case *types.Struct:
					for i := 0; i < k.NumFields(); i++ {
						if b, ok := k.Field(i).Type().Underlying().(*types.Basic); ok && b.Kind() == types.Uintptr {
							return true
						}
					}
				}
				for _, o := range append(p.origins(v, OriginOpts{}), v) {
					if cl, ok := o.(*ssa.Call); ok && calleeName(&cl.Call) == "(reflect.Value).Pointer" {
						return true
					}
					// a local that a deferred closure captures lives in a cell
					if ld, ok := o.(*ssa.UnOp); ok && ld.Op == token.MUL {
						if al, ok := ld.X.(*ssa.Alloc); ok {
							for _, st := range storesToCell(al) {
								if st.Val != v && isAddr(st.Val) {
									return true
								}
							}
						}
					}
				}
				return false
			}
			resultMap := func(v ssa.Value) bool {
				m, ok := v.Type().Underlying().(*types.Map)
				if !ok {
					return false
				}
				if b, isB := m.Elem().Underlying().(*types.Basic); isB && b.Kind() == types.Bool {
					return false
				}
				if st, isS := m.Elem().Underlying().(*types.Struct); isS && st.NumFields() == 0 {
					return false
				}
				return true
			}
			consulted, filled := false, false
			walkFuncTree(fn, func(f *ssa.Function) {
				eachInstr(f, func(in ssa.Instruction) {
					switch x := in.(type) {
					case *ssa.Lookup:
						if x.CommaOk && resultMap(x.X) && isAddr(x.Index) && x.Referrers() != nil {
							// a hit ends the conversion: the ok answer branches to a return
							for _, r := range *x.Referrers() {
								if ex, ok := r.(*ssa.Extract); ok && ex.Index == 1 && ex.Referrers() != nil {
									for _, u := range *ex.Referrers() {
										if ifi, isIf := u.(*ssa.If); isIf {
											hit := ifi.Block().Succs[0]
											if len(hit.Instrs) > 0 {
												if _, isRet := hit.Instrs[len(hit.Instrs)-1].(*ssa.Return); isRet {
													consulted = true
												}
											}
										}
									}
								}
							}
						}
					case *ssa.MapUpdate:
						if resultMap(x.Map) && (isAddr(x.Key) || f != fn) {
							filled = true
						}
					}
				})
			})
			c.check(consulted && filled, "structToMap: remembers converted structs", p.pos(fn.Pos()), "a result map keyed by address is consulted before and filled after the walk", "the converter keeps no record of the structs it has converted (only of the ones on the current path): data in which a struct is reachable over several paths — a DAG, two fields pointing at one node — is converted once per path, exponentially often along a chain, until time or memory runs out before the render starts")
		},
	})
}
