#!/usr/bin/env python3
"""Generates /verif/MANIFEST.json from the table below (kept in one place so it stays valid)."""
import json, os

HERE = os.path.dirname(os.path.dirname(os.path.abspath(__file__)))

# property id -> (technique, what is decided, what is NOT decided / assumed)
CHECKS = {
    "C12": (
        "taint of the destination writer over the call graph + error-result dataflow on SSA + CFG ordering and dominance",
        "Decides three structural clauses for every function that can hold a render entry's destination writer: (R1) every call receiving the writer propagates its error result to the entry's return; (R2) no fallible non-write call is reachable after the first possible write, and anything re-entered with the writer is a pure writer; (R3) every Template render method returns ctx.Err() before the first possible write. Together these are close to sufficient for 'error => nothing written' and 'writer failure => error' on the Template entry points.",
        "Not decided: that on a nil error the document is complete. Trusted: go/ssa, the VTA call graph, io/bytes/fmt standard-library write functions report failures through their error result.",
    ),
    "C11": (
        "unchecked-assertion origin analysis, reflect.Kind-set dataflow with call-site facts, index-bound and IsExported edge-dominance guards, call-graph SCC classification with depth-guard/visited-set recognition, who-may-call panic/Must*",
        "Decides four families of panic / unbounded-recursion preconditions that are visible in the code, over every function of the module: (R1) unchecked type assertions are provably safe; (R2) every reflect call with a panic precondition is dominated by a guard that establishes it; (R3) every recursive cycle of the call graph walks a finite tree, or - for cycles through the template loader or through reflected data - carries an effective depth guard / visited set; (R5) no panic()/Must* on template or data values.",
        "Not decided: index/slice bounds outside reflect, nil dereferences, division, panics inside dependencies or user-registered functions, termination of loops other than the recursion shapes above. Trusted: go/ssa, VTA call graph, the table of reflect preconditions in the checker.",
    ),
    "C09": (
        "must-lockset dataflow with inferred guarded-by relation; inter-procedural read-only taint of shared DOM / caller data with field-based heap; who-may-write scan of engine state over the concurrent cone",
        "Decides a lock/ownership discipline over the enumerated shared state, each item a necessary condition for race freedom: (R1) every access to a field that lives next to a mutex and is ever accessed under it holds that mutex in the right mode; (R2) cached parsed templates and cached front-matter are never written through, in any function they reach; (R3) the caller's data is never written nor installed as a writable scope; (R4) no other unsynchronised write to package-level or engine state in the cone of the concurrent entry points; (R6) the v-once set is per render; plus pool hygiene (C10.R4) and cache-key completeness (C10.R6).",
        "Not decided: that concurrent renders return the same bytes as sequential ones; races inside dependencies (expr-lang VM, yaml, lessgo, goldmark); user-supplied FuncMap/NodeProcessor code. Trusted: go/ssa, VTA call graph, sync.Mutex/RWMutex/Once/Pool semantics.",
    ),
    "C10": (
        "map-range body classification on SSA natural loops (commutative vs order-sensitive, sorted-afterwards), pool reset dominance, forward value-flow taint from clock/random sources to output sinks, cache-key dependency analysis",
        "Decides the structural sources of render-to-render differences: (R1) no range over a map (or unsorted reflect MapKeys) feeds ordered output; (R4) pooled objects are reset before Put and not used after; (R5) no clock/random value flows into text, emitted attributes or a writer; (R6) memoised values depend only on their cache key; (C09.R2/R3) rendering modifies neither the loaded templates nor the caller's data.",
        "Not decided: byte identity of two renders as such; after-effects of failed renders beyond pool hygiene. Trusted: go/ssa, call graph, sort.* sorts.",
    ),
}

PENDING_REASON = "check for this property is being built in this session (see DESIGN.md section 2 for the planned rules); not claimed until its rules run clean on the unchanged tree"

def main():
    props = [json.loads(l)["id"] for l in open(os.path.join(HERE, "properties.jsonl")) if l.strip()]
    checks, na = [], []
    for pid in props:
        if pid in CHECKS:
            tech, text, note = CHECKS[pid]
            checks.append({
                "property_id": pid,
                "quick_cmd": f"./check.sh {pid} quick",
                "thorough_cmd": f"./check.sh {pid} thorough",
                "evidence_file": f"evidence/{pid}.json",
                "replay_cmd_template": "bin/vuegocheck -replay {path}",
                "engine": "vuegocheck",
                "level_claimed": {"category": "other", "text": text, "design_ref": f"DESIGN.md section 2, {pid}"},
                "level_note": note,
                "technique": "static analysis: " + tech,
            })
        else:
            na.append({"property_id": pid, "reason": NA.get(pid, PENDING_REASON)})
    m = {
        "version": 1,
        "setup_cmd": "cd /verif/checker && PATH=/opt/veriftools/go1.26.8/bin:$PATH GOTOOLCHAIN=local GOFLAGS=-mod=mod GOPROXY=off GOWORK=off go build -o ../bin/vuegocheck .",
        "hooks": {
            "guard": "verif",
            "enable": "none needed: the checks read /repo's source as it is (static analysis); no instrumentation is compiled in",
            "baseline_off_cmd": "/verif/tools/baseline.sh /repo",
            "source_commits": [],
            "add_only": True,
        },
        "engines": [{
            "name": "vuegocheck",
            "path": "checker/",
            "serves_properties": sorted(CHECKS.keys()),
            "kind_free_text": "repository-specific static analyser (go/packages + go/ssa + dominators/CFG + VTA call graph, x/tools v0.50.0, go1.26.8); one rule file per property; verdict per (rule, construct) obligation",
        }],
        "checks": checks,
        "not_applicable": na,
        "notes": "All claims are at level 'other': each check decides structural necessary conditions of its property from the source, not the value-level behaviour. Exit 2 / 'UNDECIDED' (never a VIOLATION line) is reserved for runs in which the analyser cannot resolve its anchors. known_findings.json lists genuine defects recorded rather than repaired (status open) and repaired ones (status fixed, suppress nothing).",
    }
    with open(os.path.join(HERE, "MANIFEST.json"), "w") as f:
        json.dump(m, f, indent=1)
        f.write("\n")

NA = {}

if __name__ == "__main__":
    main()
