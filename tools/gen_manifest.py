#!/usr/bin/env python3
"""Generates /verif/MANIFEST.json from the table below (kept in one place so it stays valid)."""
import json, os

HERE = os.path.dirname(os.path.dirname(os.path.abspath(__file__)))

# property id -> (technique, what is decided, what is NOT decided / assumed)
CHECKS = {
    "C12": (
        "taint of the destination writer over the call graph + error-result dataflow on SSA + CFG ordering and dominance",
        "Decides three structural clauses for every function that can hold a render entry's destination writer: (R1) every call receiving the writer propagates its error result to the entry's return; (R2) no fallible non-write call is reachable after the first possible write, and anything re-entered with the writer is a pure writer; (R3) every Template render method returns ctx.Err() before the first possible write. Together these are close to sufficient for 'error => nothing written' and 'writer failure => error' on the Template entry points.",
        "Not decided: that on a nil error the document is complete. Trusted: go/ssa, the VTA call graph, io/bytes/fmt standard-library write functions report failures through their error result.",
    ),
    "C11": (
        "unchecked-assertion origin analysis, reflect.Kind-set dataflow with call-site facts, index-bound and IsExported edge-dominance guards, call-graph SCC classification with depth-guard/visited-set recognition, who-may-call panic/Must*",
        "Decides four families of panic / unbounded-recursion preconditions that are visible in the code, over every function of the module: (R1) unchecked type assertions are provably safe; (R2) every reflect call with a panic precondition is dominated by a guard that establishes it; (R3) every recursive cycle of the call graph walks a finite tree, or - for cycles through the template loader or through reflected data - carries an effective depth guard / visited set; (R5) no panic()/Must* on template or data values.",
        "Not decided: index/slice bounds outside reflect, nil dereferences, division, panics inside dependencies or user-registered functions, termination of loops other than the recursion shapes above. Trusted: go/ssa, VTA call graph, the table of reflect preconditions in the checker.",
    ),
    "C09": (
        "must-lockset dataflow with inferred guarded-by relation; inter-procedural read-only taint of shared DOM / caller data with field-based heap; who-may-write scan of engine state over the concurrent cone",
        "Decides a lock/ownership discipline over the enumerated shared state, each item a necessary condition for race freedom: (R1) every access to a field that lives next to a mutex and is ever accessed under it holds that mutex in the right mode; (R2) cached parsed templates and cached front-matter are never written through, in any function they reach; (R3) the caller's data is never written nor installed as a writable scope; (R4) no other unsynchronised write to package-level or engine state in the cone of the concurrent entry points; (R6) the v-once set is per render; plus pool hygiene (C10.R4) and cache-key completeness (C10.R6).",
        "Not decided: that concurrent renders return the same bytes as sequential ones; races inside dependencies (expr-lang VM, yaml, lessgo, goldmark); user-supplied FuncMap/NodeProcessor code. Trusted: go/ssa, VTA call graph, sync.Mutex/RWMutex/Once/Pool semantics.",
    ),
    "C10": (
        "map-range body classification on SSA natural loops (commutative vs order-sensitive, sorted-afterwards), pool reset dominance, forward value-flow taint from clock/random sources to output sinks, cache-key dependency analysis",
        "Decides the structural sources of render-to-render differences: (R1) no range over a map (or unsorted reflect MapKeys) feeds ordered output; (R4) pooled objects are reset before Put and not used after; (R5) no clock/random value flows into text, emitted attributes or a writer; (R6) memoised values depend only on their cache key; (C09.R2/R3) rendering modifies neither the loaded templates nor the caller's data.",
        "Not decided: byte identity of two renders as such; after-effects of failed renders beyond pool hygiene. Trusted: go/ssa, call graph, sort.* sorts.",
    ),
    "C03": (
        "type-switch table extraction from the typed AST, origin analysis of every IsTruthy argument, edge-dominance guards and CFG reachability in the chain walker and sibling scans",
        "Decides: (R1) the truthiness table has a genuine zero test for every numeric width plus bool/string/nil; (R2) every condition position decides through that one table, on the evaluated value itself; (R3) orphan v-else/v-else-if never reach the generic rendering path; (R4) after a chain member was rendered no other member's evaluation is reachable; (R5) sibling scans inspect directives only of element nodes and the v-for look-ahead stops at the first element.",
        "Not decided: which branch is chosen (first truthy), skip-count arithmetic, sibling preservation. Trusted: go/types, go/ssa.",
    ),
    "C04": (
        "integer balance dataflow over Push/Pop with defers, dominance of bindings by the push, field-ownership scan, loop-direction and overlay-order checks on SSA, binding table of the v-for callback",
        "Decides: (R1) pushed scopes are popped on every exit; (R2) bindings and evaluation happen under the pushed scope; (R3) only *Stack touches the scope list (one save/restore exception); (R4) Lookup and EnvMap agree on precedence; (R6) index/item binding of the v-for forms; plus C03.R5 (look-ahead for v-else) and C10.R1 (map iteration order).",
        "Not decided: one instance per item, index values, typed collections. Trusted: go/ssa, call graph.",
    ),
    "C05": (
        "balance dataflow, CFG ordering of merge steps in the include evaluator, must-pass (dominance) of the :required check and of DOM preparation before evaluation",
        "Decides: (C04.R1/R2) the props scope is popped on every exit and bindings go into it; (R2) props are pushed before front-matter is written and both precede evaluation; (R3) the :required check dominates evaluation of a template root and its error names the variable; (R4) every parsed DOM is shorthand-resolved and id-stamped before evaluation.",
        "Not decided: JSON decoding of props, typed values of bound props, visibility of includer variables. Trusted: go/ssa.",
    ),
    "C06": (
        "forward value-flow taint from the shared SlotContent.Nodes storage to evaluator results, guard analysis of the slot-scope assignment, CFG reachability of the fallback",
        "Decides: (R1) supplied slot nodes reach the output only through an evaluator call on a deep clone; (R2) the component's slot scope comes from its own include tag (open known finding); (R3) no path that found supplied content reaches the fallback; (C04.R1/R2) scoped props are pushed and popped.",
        "Not decided: slot-name matching, destructuring, per-iteration props. Trusted: go/ssa, call graph.",
    ),
    "C07": (
        "loop-counter/guard recognition on SSA, destination-writer use analysis, constant agreement, CFG must-pass of the key deletion, origin of the resolution anchor",
        "Decides: (R1) the layout loop has a growing counter compared with a constant whose overflow returns an error without output; (R2) links render into per-iteration buffers and the destination is used once, by the final copy; (R3) the default-layout constant agrees with the probe and is guarded; (R4) resolution order and the loop-carried anchor file; (R5) the consumed key is deleted on every continue path and the accumulated data map is never replaced.",
        "Not decided: data/front-matter visibility across links beyond R5, content correctness. Trusted: go/ssa.",
    ),
    "C08": (
        "CFG order of ranged merge sources, effect check of child constructors, origin analysis of root scopes, consumption of loader front-matter results",
        "Decides: (R1) each merge site writes its sources lowest precedence first; (C04.R4) Lookup/EnvMap precedence agreement; (R3) New/Load never write to the parent and Fill's root scope is a fresh map; (R4) loaded front-matter is never dropped and Template renders go through the engine path that re-applies it.",
        "Not decided: fall-through for absent keys, struct/JSON-tag addressing. Trusted: go/ssa.",
    ),
    "C14": (
        "reader/filter table agreement (constants extracted from SSA), slice-bound check of the bracket unwrap, edge-dominance guards in the attribute and v-show handlers",
        "Decides: (R1) every directive/internal key the evaluator uses is filtered by the serialiser; (R2) bracketed attributes bypass the filter and are unwrapped by exactly one byte each side; (R3) a bound result is recorded only under IsTruthy; (R6) display:none exactly on the falsy edge; plus C10.R1 (attribute/style order) and C11.R1 (style merge cannot panic).",
        "Not decided: class/style merge results, kebab-casing, declaration parsing. Trusted: go/ssa.",
    ),
    "C15": (
        "guard analysis of the single cache update, origin analysis of stored and returned values, entering-edge analysis of the hit path",
        "Decides: (R1) the cache is updated once, only after successful load and parse, with values of this call, and the reload path returns the fresh data; (R2) a hit is entered only through mtime equality (or the documented zero-mtime case) and never after a failed Stat; (C09.R7) published entries are immutable; (C10.R6) cached values depend only on the key.",
        "Not decided: equal-mtime edits (documented), Load-vs-render skew. Trusted: go/ssa, time.Time.Equal.",
    ),
    "C16": (
        "dominance of id stamping before evaluation, guard analysis of the seen-set update, origin of the seen set, forward taint of clock values",
        "Decides: (C05.R4) every DOM entering evaluation has ids stamped; (R4) a v-once element is marked when first reached, under v-once and not-seen only; (C09.R6) the seen set is fresh per render and shared only along the include chain; (C09.R2/C10.R5) ids are not written into shared templates and no clock value reaches the output.",
        "Not decided: that distinct elements get distinct ids at run time, loop-iteration counting. Trusted: go/ssa.",
    ),
    "C17": (
        "structural checks of the stack primitives on SSA, reflect-precondition guards, lockset of the path cache",
        "Decides: (C04.R1-R4) balance, ownership, precedence agreement; (R2) Push/Pop/Copy primitives and EnvMap freshness; (R6) absence only after every resolution strategy; (C11.R2) path steps guard their reflect calls; (C09.R1/C10.R4) path-cache locking and pool hygiene.",
        "Not decided: model conformance over operation sequences, equality with Go indexing for every nesting. Trusted: go/ssa.",
    ),
    "C18": (
        "nil-guard dominance, guard exactness of the merge store, set-construction and sort dominance, control dependence of the error return",
        "Decides: (R1) every layer use is nil-guarded; (R2) Open returns the first success and ErrNotExist otherwise, ReadDir stores only under !exists in ascending layer order; (R3) results are built from a name-keyed set and sorted; (R4) existence is not decided by len(merged).",
        "Not decided: file-over-directory shadowing semantics, metadata equality, glob syntax. Trusted: go/ssa, sort.*.",
    ),
    "C01": (
        "serialiser-scoped forward taint of text/attribute loads with escaper sanitizers and exemption classification (identity guard, script/style branch, carriers); typestate taint of evaluator results; data-to-code value-flow taint",
        "Decides: (R1) evaluated node lists never re-enter an evaluator/handler and the attribute handler skips the internal carriers; (R2) every text and attribute value the serialiser emits is escaped, except under an identity guard, in the script/style branch, or for the two carriers, and escaper helpers are total; (R3) the v-text carrier is escaped when stored and no other raw channel exists; (R4) no data value flows into a template/expression argument; (C04.R7) loop instances are private deep clones; (C06.R1, C20.R3) related raw-leak rules.",
        "Not decided: that an HTML5 parser sees the same element/attribute structure for every hostile string (html.EscapeString and the parser are trusted). Assumes attribute values stored under a dynamic key do not hit the two reserved carrier keys. Trusted: go/ssa, call graph.",
    ),
    "C02": (
        "node-type table extraction from the serialiser's switch, void-awareness check, the escape-discipline taint of C01.R2",
        "Decides: (R1) the serialiser has a case for text, element and doctype nodes; (R2) end tags are controlled by a void-element test (open known finding: <br></br>); (C01.R2) parsed, entity-decoded static text and attribute values are re-escaped without content sniffing; (C19.R3) the formatter's void table.",
        "Not decided: round-trip equality of attribute/value/text in general, whitespace handling, raw-text elements with several children. Trusted: go/ssa.",
    ),
    "C13": (
        "per-expression-site check of which evaluator receives template text, error-result dataflow of pipe-interpreter calls, loop-carried threading of segment inputs, constant-argument checks",
        "Decides: (R1) each expression position hands its text to the pipe interpreter (which reaches the function registry) before any bare evaluation (six open known findings in condition/object/slot positions); (R2) only the filter evaluator calls functions reflectively, its errors name the function, and pipe errors are returned (two open known findings in evalTemplate); (R3) segments are threaded left to right and the piped value is the first argument; (R4) string-to-integer argument conversion is decimal; (C10.R6) compiled expressions are cached by expression text only.",
        "Not decided: operator semantics, conventional evaluation, conversions beyond the base, quoting variants. Trusted: go/ssa, call graph, expr-lang.",
    ),
    "C19": (
        "formatter-scoped forward taint of Attribute.Val and text Data with escaper sanitizers recognised by their byte tables; void-table comparison against the repository's own atom constants; node-type table",
        "Decides: (R1) every attribute value written passes a function that rewrites the double quote and the ampersand; (R2) every text node written outside script/style passes the & < > escaper; (R3) the void-element table equals HTML's and controls close tags; (R4) Document/Element/Text/Comment nodes are handled.",
        "Not decided: idempotence and parse-equivalence as such, layout rules, whitespace, front-matter byte identity, mustache preservation inside text. Trusted: go/ssa, x/net/html/atom constants.",
    ),
    "C20": (
        "typed-AST case tables against a frozen list of goldmark node kinds; cross-artefact check of embedded templates (parsed with x/net/html) against data literals; forward taint of Markdown source bytes to raw sinks",
        "Decides: (R1) every GFM block/inline/table node kind has a handler; (R2) every rendered template exists and reads only variables its data literal provides, and every embedded template is used; (R3) source text reaches the v-html stream only through an escaper, except raw HTML and code strings; (R4) the user's filesystem is the upper overlay layer; (C10.R6) no package-level output cache; (C02.R2) <br> finding.",
        "Not decided: agreement with a CommonMark/GFM reference in structure and text, heading ids, list starts, code-block content extraction. Trusted: go/types, go/ssa, goldmark's HTML writer escapes text.",
    ),
}

PENDING_REASON = "check for this property is being built in this session (see DESIGN.md section 2 for the planned rules); not claimed until its rules run clean on the unchanged tree"

def rules_by_property():
    """Rules as registered in the checker (`vuegocheck -list`): property -> [(id, first sentence of the rule's statement)]."""
    import subprocess, re
    out = subprocess.run([os.path.join(HERE, "bin", "vuegocheck"), "-list"], stdout=subprocess.PIPE, text=True).stdout
    by = {}
    for line in out.splitlines():
        m = re.match(r"^(C\d+\.R\d+)\s+(\S+)\s+min=\d+\s+(.*)$", line)
        if not m:
            continue
        rid, props, doc = m.group(1), m.group(2).split(","), m.group(3)
        first = doc.split(": ")[0] if len(doc.split(": ")[0]) > 25 else doc
        first = first[:170]
        for p in props:
            by.setdefault(p, []).append((rid, first))
    return by

def main():
    props = [json.loads(l)["id"] for l in open(os.path.join(HERE, "properties.jsonl")) if l.strip()]
    checks, na = [], []
    rules = rules_by_property()
    for pid in props:
        if pid in CHECKS:
            tech, text, note = CHECKS[pid]
            tech += "; on a changed tree, functions that are new since the pinned tree are inlined into their callers in SSA form (with jump threading) before any rule runs"
            rl = rules.get(pid, [])
            if rl:
                text += " | All rules registered for this property (" + str(len(rl)) + ", from `vuegocheck -list`; full statements there and in DESIGN.md 6.2): " + "; ".join(f"{rid} — {d}" for rid, d in sorted(rl, key=lambda x: (int(x[0][1:3]), int(x[0].split('R')[1]))))
            checks.append({
                "property_id": pid,
                "quick_cmd": f"./check.sh {pid} quick",
                "thorough_cmd": f"./check.sh {pid} thorough",
                "evidence_file": f"evidence/{pid}.json",
                "replay_cmd_template": "bin/vuegocheck -replay {path}",
                "engine": "vuegocheck",
                "level_claimed": {"category": "other", "text": text, "design_ref": f"DESIGN.md section 2, {pid}"},
                "level_note": note,
                "technique": "static analysis: " + tech,
            })
        else:
            na.append({"property_id": pid, "reason": NA.get(pid, PENDING_REASON)})
    m = {
        "version": 1,
        "setup_cmd": "cd /verif/checker && PATH=/opt/veriftools/go1.26.8/bin:$PATH GOTOOLCHAIN=local GOFLAGS=-mod=mod GOPROXY=off GOWORK=off go build -o ../bin/vuegocheck .",
        "hooks": {
            "guard": "verif",
            "enable": "none needed: the checks read /repo's source as it is (static analysis); no instrumentation is compiled in",
            "baseline_off_cmd": "/verif/tools/baseline.sh /repo",
            "source_commits": [],
            "add_only": True,
        },
        "engines": [{
            "name": "vuegocheck",
            "path": "checker/",
            "serves_properties": sorted(CHECKS.keys()),
            "kind_free_text": "repository-specific static analyser (go/packages + go/ssa + dominators/CFG + VTA call graph, x/tools v0.50.0, go1.26.8); one rule file per property; verdict per (rule, construct) obligation",
        }],
        "checks": checks,
        "not_applicable": na,
        "notes": "All claims are at level 'other': each check decides structural necessary conditions of its property from the source, not the value-level behaviour. Exit 2 / 'UNDECIDED' (never a VIOLATION line) is reserved for runs in which the analyser cannot resolve its anchors. known_findings.json lists genuine defects recorded rather than repaired (status open) and repaired ones (status fixed, suppress nothing).",
    }
    with open(os.path.join(HERE, "MANIFEST.json"), "w") as f:
        json.dump(m, f, indent=1)
        f.write("\n")

NA = {}

if __name__ == "__main__":
    main()
