#!/usr/bin/env python3
"""seedmatrix.py — run the static checks against every change kept under /verif/seeded/ (in a scratch
worktree of /repo HEAD, removed afterwards), update each meta.json's static_checks and print the matrix."""
import json, os, re, subprocess, tempfile, shutil, glob, sys
cenv = dict(os.environ, PATH="/opt/veriftools/go1.26.8/bin:" + os.environ["PATH"], GOTOOLCHAIN="local", GOFLAGS="-mod=mod", GOPROXY="off", GOWORK="off")
def sh(cmd, cwd=None, env=None):
    p = subprocess.run(["bash", "-c", cmd], cwd=cwd, env=env or os.environ, stdout=subprocess.PIPE, stderr=subprocess.STDOUT, text=True)
    return p.returncode, p.stdout
wt = tempfile.mkdtemp(prefix="seedmatrix-"); os.rmdir(wt)
rc, out = sh(f"git -C /repo worktree add -q --detach {wt} HEAD"); assert rc == 0, out
rows = []
try:
    for d in sorted(glob.glob("/verif/seeded/*/")):
        meta = json.load(open(d + "meta.json"))
        rc, out = sh(f"git apply {d}patch.diff", cwd=wt)
        if rc != 0:
            rows.append((meta["id"], "patch no longer applies", [], False)); continue
        rc, out = sh(f"/verif/bin/vuegocheck -property all -no-evidence -repo {wt} -verif /verif", env=cenv)
        sh("git checkout -q -- . && git clean -fdq", cwd=wt)
        fired = sorted(set(re.findall(r"^\s+(C\d+\.R\d+[a-z]?) ", out, re.M)))
        props = sorted(set(re.findall(r"^VIOLATION property=(C\d+)", out, re.M)))
        und = sorted(set(re.findall(r"^UNDECIDED: property=(C\d+)", out, re.M)))
        caught = meta["breaks_property"] in props
        meta["static_checks"] = {"caught_for_its_property": caught, "rules_that_fire": fired, "properties_with_violation": props, "undecided_properties": und,
                                 "first_reports": [l.strip()[:300] for l in out.splitlines() if re.match(r"^\s+C\d+\.R", l)][:4]}
        json.dump(meta, open(d + "meta.json", "w"), indent=1)
        rows.append((meta["id"], meta["breaks_property"], fired, caught))
finally:
    sh(f"git -C /repo worktree remove --force {wt}"); shutil.rmtree(wt, ignore_errors=True)
n = sum(1 for r in rows if r[3])
for r in rows:
    print(f"{r[0]:8} {r[1]:6} {'CAUGHT' if r[3] else 'missed':7} {','.join(r[2])}")
print(f"caught {n}/{len(rows)}")
