#!/usr/bin/env python3
"""seedmatrix.py [-j N] [id ...] — run the static checks against every change kept under /verif/seeded/ (each worker in
its own scratch worktree of /repo HEAD, removed afterwards), update each meta.json's static_checks and print the matrix."""
import json, os, re, subprocess, tempfile, shutil, glob, sys
from concurrent.futures import ThreadPoolExecutor
import queue
cenv = dict(os.environ, PATH="/opt/veriftools/go1.26.8/bin:" + os.environ["PATH"], GOTOOLCHAIN="local", GOFLAGS="-mod=mod", GOPROXY="off", GOWORK="off")
BIN = os.environ.get("VC_BIN", "/verif/bin/vuegocheck")
def sh(cmd, cwd=None, env=None):
    p = subprocess.run(["bash", "-c", cmd], cwd=cwd, env=env or os.environ, stdout=subprocess.PIPE, stderr=subprocess.STDOUT, text=True, errors="replace")
    return p.returncode, p.stdout
args = sys.argv[1:]
J = 6
if args[:1] == ["-j"]:
    J = int(args[1]); args = args[2:]
dirs = [f"/verif/seeded/{a}/" for a in args] or sorted(glob.glob("/verif/seeded/*/"))
dirs = [d for d in dirs if os.path.exists(d + "meta.json")]
wts = queue.Queue()
all_wts = []
for i in range(min(J, len(dirs))):
    wt = tempfile.mkdtemp(prefix="seedmatrix-"); os.rmdir(wt)
    rc, out = sh(f"git -C /repo worktree add -q --detach {wt} HEAD"); assert rc == 0, out
    wts.put(wt); all_wts.append(wt)
def one(d):
    wt = wts.get()
    try:
        meta = json.load(open(d + "meta.json"))
        rc, out = sh(f"git apply {d}patch.diff", cwd=wt)
        if rc != 0:
            return (meta["id"], "patch no longer applies", [], False)
        rc, out = sh(f"{BIN} -property all -no-evidence -repo {wt} -verif /verif", env=cenv)
        sh("git checkout -q -- . && git clean -fdq", cwd=wt)
        if "UNDECIDED: type errors" in out or "UNDECIDED: packages.Load" in out:
            return (meta["id"], "DOES NOT BUILD at this HEAD (patch needs rebasing)", [], False)
        fired = sorted(set(re.findall(r"^\s+(C\d+\.R\d+[a-z]?) ", out, re.M)))
        props = sorted(set(re.findall(r"^VIOLATION property=(C\d+)", out, re.M)))
        und = sorted(set(re.findall(r"^UNDECIDED: property=(C\d+)", out, re.M)))
        caught = meta["breaks_property"] in props
        meta["static_checks"] = {"caught_for_its_property": caught, "rules_that_fire": fired, "properties_with_violation": props, "undecided_properties": und,
                                 "first_reports": [l.strip()[:300] for l in out.splitlines() if re.match(r"^\s+C\d+\.R", l)][:4]}
        json.dump(meta, open(d + "meta.json", "w"), indent=1)
        return (meta["id"], meta["breaks_property"], fired, caught)
    finally:
        wts.put(wt)
try:
    with ThreadPoolExecutor(max_workers=J) as ex:
        rows = list(ex.map(one, dirs))
finally:
    for wt in all_wts:
        sh(f"git -C /repo worktree remove --force {wt}"); shutil.rmtree(wt, ignore_errors=True)
retired = {json.load(open(d + "meta.json"))["id"] for d in dirs if json.load(open(d + "meta.json")).get("retired")}
live = [r for r in rows if r[0] not in retired]
n = sum(1 for r in live if r[3])
for r in rows:
    tag = "retired" if r[0] in retired else ("CAUGHT" if r[3] else "missed")
    print(f"{r[0]:8} {r[1]:6} {tag:7} {','.join(r[2])}")
print(f"caught {n}/{len(live)}" + (f"  (+{len(retired)} retired: no longer property-breaking at this HEAD, see their meta.json)" if retired else ""))
