#!/usr/bin/env python3
"""refactest.py [-j N] [dir ...] — false-alarm regression: apply each behaviour-preserving refactoring kept under
/verif/refactors/<id>/patch.diff (or the given directories) to a scratch worktree of /repo's HEAD and run
every check on it. Any VIOLATION or UNDECIDED is a false alarm of the checker. Scratch worktrees removed afterwards."""
import glob, json, os, re, shutil, subprocess, sys, tempfile, queue
from concurrent.futures import ThreadPoolExecutor
cenv = dict(os.environ, PATH="/opt/veriftools/go1.26.8/bin:" + os.environ["PATH"], GOTOOLCHAIN="local", GOFLAGS="-mod=mod", GOPROXY="off", GOWORK="off")
BIN = os.environ.get("VC_BIN", "/verif/bin/vuegocheck")
def sh(cmd, cwd=None, env=None):
    p = subprocess.run(["bash", "-c", cmd], cwd=cwd, env=env or os.environ, stdout=subprocess.PIPE, stderr=subprocess.STDOUT, text=True, errors="replace")
    return p.returncode, p.stdout
args = sys.argv[1:]
J = 6
if args[:1] == ["-j"]:
    J = int(args[1]); args = args[2:]
dirs = args or sorted(glob.glob("/verif/refactors/*/"))
wts = queue.Queue(); all_wts = []
for i in range(min(J, len(dirs))):
    wt = tempfile.mkdtemp(prefix="refactest-"); os.rmdir(wt)
    rc, out = sh(f"git -C /repo worktree add -q --detach {wt} HEAD"); assert rc == 0, out
    wts.put(wt); all_wts.append(wt)
def one(d):
    wt = wts.get()
    try:
        d = d.rstrip("/") + "/"
        name = "/".join(d.rstrip("/").split("/")[-2:]) if "/tmp/" in d else d.rstrip("/").split("/")[-1]
        rc, out = sh(f"git apply {d}patch.diff", cwd=wt)
        if rc != 0:
            return ("skip", f"{name:14} patch does not apply (skipped)")
        rc, out = sh("go build ./...", cwd=wt, env=dict(os.environ, GOFLAGS="-mod=mod", GOPROXY="off"))
        if rc != 0:
            sh("git checkout -q -- . && git clean -fdq", cwd=wt)
            return ("skip", f"{name:14} does not build (skipped)")
        rc, out = sh(f"{BIN} -property all -no-evidence -repo {wt} -verif /verif", env=cenv)
        sh("git checkout -q -- . && git clean -fdq", cwd=wt)
        viol = sorted(set(re.findall(r"^\s+(C\d+\.R\d+[a-z]?) ", out, re.M)))
        und = sorted(set(re.findall(r"^UNDECIDED: property=C\d+ rule (C\d+\.R\d+)", out, re.M)))
        if "UNDECIDED:" in out and not und:
            und = ["(whole run)"]
        status = "silent" if not viol and not und else "FALSE ALARM"
        limit = None
        try:
            limit = json.load(open(d + "meta.json")).get("checker_limit")
        except Exception:
            pass
        kind = "ok"
        if status != "silent" and limit and not viol:
            status = "UNDECIDED (documented limit)"; kind = "limit"
        elif status != "silent":
            kind = "bad"
        txt = f"{name:14} {status:12} violations={','.join(viol) or '-'} undecided={','.join(und) or '-'}"
        if status == "FALSE ALARM" and os.environ.get("REFAC_VERBOSE"):
            for l in out.splitlines():
                if re.match(r"^\s+C\d+\.R|^UNDECIDED", l):
                    txt += "\n       " + l.strip()[:300]
        return (kind, txt)
    finally:
        wts.put(wt)
try:
    with ThreadPoolExecutor(max_workers=J) as ex:
        rows = list(ex.map(one, dirs))
finally:
    for wt in all_wts:
        sh(f"git -C /repo worktree remove --force {wt}"); shutil.rmtree(wt, ignore_errors=True)
for k, t in rows:
    print(t)
bad = sum(1 for k, _ in rows if k == "bad"); limits = sum(1 for k, _ in rows if k == "limit"); skipped = sum(1 for k, _ in rows if k == "skip")
print(f"false alarms: {bad}/{len(dirs)}" + (f"  (+{limits} undecided on deleted roles, documented in their meta.json and DESIGN.md 6.9)" if limits else "") + (f"  ({skipped} skipped: patch stale)" if skipped else ""))
sys.exit(1 if bad else 0)
