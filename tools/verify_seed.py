#!/usr/bin/env python3
"""verify_seed.py <seed-dir> <id> — confirm a seeded change independently in a scratch worktree:
   it applies, builds, the pinned suite passes with it, its demonstration fails with it and passes without it.
   Then run the static checks against it and record which rules fire. Writes /verif/seeded/<id>/."""
import json, os, re, shutil, subprocess, sys, tempfile

seed, sid = sys.argv[1], sys.argv[2]
meta = json.load(open(os.path.join(seed, "meta.json")))
env = dict(os.environ, GOFLAGS="-mod=mod", GOPROXY="off")
for k in ("GOTOOLCHAIN", "GOSUMDB", "GOWORK"):
    env.pop(k, None)

def sh(cmd, cwd=None, timeout=900, env=env):
    p = subprocess.run(["bash", "-c", "ulimit -v 12000000; " + cmd], cwd=cwd, env=env, stdout=subprocess.PIPE, stderr=subprocess.STDOUT, text=True, timeout=timeout)
    return p.returncode, p.stdout

wt = tempfile.mkdtemp(prefix="seedverify-")
os.rmdir(wt)
res = {"id": sid, "property": meta.get("property"), "summary": meta.get("summary"), "needs": meta.get("needs"), "ran": []}
try:
    rc, out = sh(f"git -C /repo worktree add -q --detach {wt} HEAD")
    assert rc == 0, out
    patch = os.path.abspath(os.path.join(seed, "patch.diff"))
    rc, out = sh(f"git apply {patch}", cwd=wt)
    res["applies"] = rc == 0
    res["ran"].append("git apply patch.diff (scratch worktree of /repo HEAD)")
    if rc != 0:
        raise SystemExit("patch does not apply: " + out)
    rc, out = sh("go build ./...", cwd=wt)
    res["builds"] = rc == 0
    res["ran"].append("go build ./...")
    rc, out = sh(f"/verif/tools/baseline.sh {wt}", timeout=1800)
    res["suite_passes_with_change"] = rc == 0
    res["suite_output"] = out.strip().splitlines()[-1] if out.strip() else ""
    res["ran"].append("/verif/tools/baseline.sh (984 pinned tests) with the change applied")
    place = meta.get("demo_place") or "seed_demo_test.go"
    mm = re.search(r"[\w/.-]+_test\.go", place)
    place = mm.group(0) if mm else "seed_demo_test.go"
    place = re.sub(r"^/?tmp/seed/C\d+/", "", place).lstrip("/")
    place = re.sub(r"^(repo|<repo>)/", "", place)
    if os.path.isdir(os.path.join(wt, place)) or place.endswith("/"):
        place = os.path.join(place, "seed_demo_test.go")
    dst = os.path.join(wt, place)
    os.makedirs(os.path.dirname(dst), exist_ok=True)
    shutil.copy(os.path.join(seed, "demo_test.go"), dst)
    pkg = "./" + os.path.dirname(place) if os.path.dirname(place) else "."
    src = open(dst).read()
    tests = re.findall(r"^func (Test\w+)\(", src, re.M)
    race = "-race " if "-race" in (meta.get("demo_cmd") or "") else ""
    cmd = f"timeout 300 go test -vet=off {race}-count=1 -run '^({'|'.join(tests)})$' {pkg}"
    rc1, out1 = sh(cmd, cwd=wt, timeout=900)
    res["demo_cmd"] = cmd
    res["demo_fails_with_change"] = rc1 != 0
    res["demo_with_change_tail"] = out1.strip().splitlines()[-6:]
    rc, out = sh(f"git apply -R {patch}", cwd=wt)
    assert rc == 0, out
    rc2, out2 = sh(cmd, cwd=wt, timeout=900)
    res["demo_passes_without_change"] = rc2 == 0
    res["demo_without_change_tail"] = out2.strip().splitlines()[-3:]
    res["ran"].append(cmd + " (with the change: must fail; without: must pass)")
    # static checks against the change
    rc, out = sh(f"git apply {patch}", cwd=wt)
    cenv = dict(os.environ, PATH="/opt/veriftools/go1.26.8/bin:" + os.environ["PATH"], GOTOOLCHAIN="local", GOFLAGS="-mod=mod", GOPROXY="off", GOWORK="off")
    rc, out = sh(f"/verif/bin/vuegocheck -property all -no-evidence -repo {wt} -verif /verif", env=cenv, timeout=1200)
    fired = sorted(set(re.findall(r"^\s+(C\d+\.R\d+[a-z]?) ", out, re.M)))
    props = sorted(set(re.findall(r"^VIOLATION property=(C\d+)", out, re.M)))
    res["caught_by_rules"] = fired
    res["violation_reported_for_properties"] = props
    res["caught"] = meta.get("property") in props
    res["ran"].append("bin/vuegocheck -property all against the scratch worktree with the change applied")
    res["first_reports"] = [l.strip()[:300] for l in out.splitlines() if re.match(r"^\s+C\d+\.R", l)][:4]
finally:
    sh(f"git -C /repo worktree remove --force {wt}")
    shutil.rmtree(wt, ignore_errors=True)

ok = all(res.get(k) for k in ("applies", "builds", "suite_passes_with_change", "demo_fails_with_change", "demo_passes_without_change"))
res["confirmed"] = ok
print(json.dumps({k: res[k] for k in ("id", "confirmed", "applies", "builds", "suite_passes_with_change", "demo_fails_with_change", "demo_passes_without_change", "caught", "caught_by_rules")}, indent=None))
if ok:
    out = f"/verif/seeded/{sid}"
    os.makedirs(out, exist_ok=True)
    shutil.copy(os.path.join(seed, "patch.diff"), out)
    shutil.copy(os.path.join(seed, "demo_test.go"), out)
    m = {"id": sid, "breaks_property": meta.get("property"), "summary": meta.get("summary"), "needs_to_manifest": meta.get("needs"),
         "files": meta.get("files"), "demo_place": place, "demo_cmd": res["demo_cmd"],
         "origin": "written by an independent sub-agent that saw only the property text and a scratch worktree",
         "confirmed_by_me": {k: res[k] for k in ("applies", "builds", "suite_passes_with_change", "demo_fails_with_change", "demo_passes_without_change")},
         "what_i_ran": res["ran"], "suite_result": res.get("suite_output"),
         "static_checks": {"caught_for_its_property": res["caught"], "rules_that_fire": res["caught_by_rules"], "properties_with_violation": res["violation_reported_for_properties"], "first_reports": res["first_reports"]}}
    json.dump(m, open(os.path.join(out, "meta.json"), "w"), indent=1)
sys.exit(0 if ok else 1)
