#!/usr/bin/env python3
"""determinism.py [-j N] [-n RUNS] [dir ...] — the verdict must not depend on map iteration order or scheduling: apply each
given kept change (default: a fixed sample of 24 seeds and refactorings, plus the unchanged tree) to a scratch worktree of
/repo's HEAD, run `vuegocheck -dump -property all` RUNS times (default 3) and compare the sorted outputs byte for byte."""
import glob, hashlib, os, re, subprocess, sys, tempfile, queue
from concurrent.futures import ThreadPoolExecutor
cenv = dict(os.environ, PATH="/opt/veriftools/go1.26.8/bin:" + os.environ["PATH"], GOTOOLCHAIN="local", GOFLAGS="-mod=mod", GOPROXY="off", GOWORK="off")
BIN = os.environ.get("VC_BIN", "/verif/bin/vuegocheck")
def sh(cmd, cwd=None, env=None):
    p = subprocess.run(["bash", "-c", cmd], cwd=cwd, env=env or os.environ, stdout=subprocess.PIPE, stderr=subprocess.STDOUT, text=True, errors="replace")
    return p.returncode, p.stdout
args = sys.argv[1:]; J = 6; RUNS = 3
while args[:1] and args[0] in ("-j", "-n"):
    if args[0] == "-j": J = int(args[1])
    else: RUNS = int(args[1])
    args = args[2:]
if not args:
    seeds = sorted(glob.glob("/verif/seeded/C*/")); refs = sorted(glob.glob("/verif/refactors/*/"))
    args = ["-"] + seeds[::len(seeds)//12][:12] + refs[::len(refs)//12][:12]
wts = queue.Queue(); all_wts = []
for i in range(min(J, len(args))):
    wt = tempfile.mkdtemp(prefix="determ-"); os.rmdir(wt)
    rc, out = sh(f"git -C /repo worktree add -q --detach {wt} HEAD"); assert rc == 0, out
    wts.put(wt); all_wts.append(wt)
def one(d):
    wt = wts.get()
    try:
        name = "unchanged tree" if d == "-" else d.rstrip("/").split("/")[-1]
        if d != "-":
            rc, out = sh(f"git apply {d.rstrip('/')}/patch.diff", cwd=wt)
            if rc != 0: return ("skip", f"{name:16} patch does not apply (skipped)")
        sums = []
        for k in range(RUNS):
            rc, out = sh(f"{BIN} -property all -dump -no-evidence -repo {wt} -verif /verif", env=cenv)
            lines = sorted(l for l in out.splitlines() if not re.search(r"wall=|elapsed|\d+(\.\d+)?m?s\b", l))
            sums.append(hashlib.md5("\n".join(lines).encode()).hexdigest())
        ok = len(set(sums)) == 1
        return ("ok" if ok else "bad", f"{name:16} {'deterministic' if ok else 'DIFFERS between runs: ' + ' '.join(s[:8] for s in sums)}")
    finally:
        sh("git checkout -q -- . && git clean -fdq", cwd=wt); wts.put(wt)
try:
    with ThreadPoolExecutor(max_workers=J) as ex:
        res = list(ex.map(one, args))
finally:
    for wt in all_wts:
        sh(f"git -C /repo worktree remove --force {wt}")
for k, t in res: print(t)
bad = sum(1 for k, _ in res if k == "bad")
print(f"non-deterministic: {bad}/{sum(1 for k, _ in res if k != 'skip')}")
sys.exit(1 if bad else 0)
