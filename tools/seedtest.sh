#!/bin/bash
# seedtest.sh <dir-with-patch.diff> [props...] — apply a seeded change to /repo, run the checks, undo it.
D="$1"; shift
PROPS="${*:-all}"
cd /repo || exit 2
if [ -n "$(git status --porcelain)" ]; then echo "repo not clean"; exit 2; fi
git apply "$D/patch.diff" || { echo "patch does not apply"; exit 3; }
export PATH=/opt/veriftools/go1.26.8/bin:$PATH GOTOOLCHAIN=local GOFLAGS=-mod=mod GOPROXY=off GOWORK=off
for P in $PROPS; do
  /verif/bin/vuegocheck -property $P -no-evidence -repo /repo -verif /verif 2>&1 | grep -v "^VIOLATION" | grep -E "^\s+C[0-9]+\.R|violations=[1-9]|UNDECIDED" | cut -c1-300
done
git checkout -- . ; git clean -fdq
