#!/usr/bin/env python3
"""reverify_seeds.py [-j N] [--suite] [id ...] — re-confirm the kept seeded changes against /repo's current HEAD
(the repository moves with every fix: commit): each one still applies, still builds, its demonstration still fails
with the change and passes without it; with --suite the pinned 984-test suite is also run with the change applied.
Records the outcome in meta.json under "reverified" (commit, flags). Workers use scratch worktrees, removed afterwards."""
import json, os, re, shutil, subprocess, sys, tempfile, glob, queue
from concurrent.futures import ThreadPoolExecutor
env = dict(os.environ, GOFLAGS="-mod=mod", GOPROXY="off")
for k in ("GOTOOLCHAIN", "GOSUMDB", "GOWORK"):
    env.pop(k, None)
def sh(cmd, cwd=None, timeout=1800):
    try:
        p = subprocess.run(["bash", "-c", "ulimit -v 16000000; " + cmd], cwd=cwd, env=env, stdout=subprocess.PIPE, stderr=subprocess.STDOUT, text=True, timeout=timeout)
        return p.returncode, p.stdout
    except subprocess.TimeoutExpired:
        return 124, "timeout"
args = sys.argv[1:]
J = 6; suite = False
while args and args[0].startswith("-"):
    if args[0] == "-j": J = int(args[1]); args = args[2:]
    elif args[0] == "--suite": suite = True; args = args[1:]
    else: break
dirs = [f"/verif/seeded/{a}/" for a in args] or sorted(glob.glob("/verif/seeded/*/"))
dirs = [d for d in dirs if os.path.exists(d + "meta.json")]
head = subprocess.check_output(["git", "-C", "/repo", "rev-parse", "--short", "HEAD"], text=True).strip()
wts = queue.Queue(); all_wts = []
for i in range(min(J, len(dirs))):
    wt = tempfile.mkdtemp(prefix="reverify-"); os.rmdir(wt)
    rc, out = sh(f"git -C /repo worktree add -q --detach {wt} HEAD"); assert rc == 0, out
    wts.put(wt); all_wts.append(wt)
def place_of(meta):
    place = meta.get("demo_place") or "seed_demo_test.go"
    mm = re.search(r"[\w/.-]+_test\.go", place)
    place = mm.group(0) if mm else "seed_demo_test.go"
    place = re.sub(r"^/?tmp/seed/C\d+/", "", place).lstrip("/")
    place = re.sub(r"^(repo|<repo>)/", "", place)
    return place
def one(d):
    wt = wts.get()
    r = {"commit": head}
    try:
        meta = json.load(open(d + "meta.json"))
        rc, out = sh(f"git apply {d}patch.diff", cwd=wt)
        r["applies"] = rc == 0
        if rc != 0:
            return meta["id"], r
        rc, out = sh("go build ./... && go vet ./... >/dev/null 2>&1; go build ./...", cwd=wt)
        r["builds"] = rc == 0
        if rc != 0:
            return meta["id"], r
        place = place_of(meta)
        if os.path.isdir(os.path.join(wt, place)) or place.endswith("/"):
            place = os.path.join(place, "seed_demo_test.go")
        dst = os.path.join(wt, place)
        os.makedirs(os.path.dirname(dst), exist_ok=True)
        # never overwrite a file of the repository
        if os.path.exists(dst):
            dst = dst[:-len("_test.go")] + "_seeddemo_test.go"
        shutil.copy(d + "demo_test.go", dst)
        rel = os.path.relpath(dst, wt)
        pkg = "./" + os.path.dirname(rel) if os.path.dirname(rel) else "."
        tests = re.findall(r"^func (Test\w+)\(", open(dst).read(), re.M)
        race = "-race " if "-race" in (meta.get("demo_cmd") or "") else ""
        cmd = f"timeout 600 go test -vet=off {race}-count=1 -run '^({'|'.join(tests)})$' {pkg}"
        rc1, out1 = sh(cmd, cwd=wt)
        r["demo_fails_with_change"] = rc1 != 0
        if suite:
            os.remove(dst)
            rc, out = sh(f"/verif/tools/baseline.sh {wt}", timeout=3000)
            r["suite_passes_with_change"] = rc == 0
            if rc != 0:
                r["suite_tail"] = out.strip().splitlines()[-4:]
            shutil.copy(d + "demo_test.go", dst)
        rc, out = sh(f"git apply -R {d}patch.diff", cwd=wt)
        rc2, out2 = sh(cmd, cwd=wt)
        r["demo_passes_without_change"] = rc2 == 0
        if rc2 != 0:
            r["without_tail"] = out2.strip().splitlines()[-6:]
        if rc1 == 0:
            r["with_tail"] = out1.strip().splitlines()[-3:]
        meta["reverified"] = {k: v for k, v in r.items() if not k.endswith("_tail")}
        json.dump(meta, open(d + "meta.json", "w"), indent=1)
        return meta["id"], r
    finally:
        sh("git checkout -q -- . && git clean -fdq", cwd=wt)
        wts.put(wt)
try:
    with ThreadPoolExecutor(max_workers=J) as ex:
        rows = list(ex.map(one, dirs))
finally:
    for wt in all_wts:
        sh(f"git -C /repo worktree remove --force {wt}"); shutil.rmtree(wt, ignore_errors=True)
bad = 0
for sid, r in rows:
    ok = r.get("applies") and r.get("builds") and r.get("demo_fails_with_change") and r.get("demo_passes_without_change") and (not suite or r.get("suite_passes_with_change"))
    retired = json.load(open(f"/verif/seeded/{sid}/meta.json")).get("retired")
    if retired:
        still = r.get("applies") and r.get("builds") and not r.get("demo_fails_with_change")
        print(f"{sid:8} retired ({'still harmless' if still else 'CHECK: behaves differently now'})")
        continue
    if not ok:
        bad += 1
    print(f"{sid:8} {'ok' if ok else 'NOT CONFIRMED'}  " + ("" if ok else json.dumps(r)[:600]))
print(f"confirmed at {head}: {len(rows)-bad}/{len(rows)}")
