#!/usr/bin/env python3
"""reverify_refactors.py [-j N] [id ...] — re-confirm the kept refactorings against /repo's current HEAD: each one
applies, builds, and the pinned 984-test suite passes with it. Records "reverified" in meta.json."""
import json, os, shutil, subprocess, sys, tempfile, glob, queue
from concurrent.futures import ThreadPoolExecutor
env = dict(os.environ, GOFLAGS="-mod=mod", GOPROXY="off")
for k in ("GOTOOLCHAIN", "GOSUMDB", "GOWORK"):
    env.pop(k, None)
def sh(cmd, cwd=None, timeout=3000):
    p = subprocess.run(["bash", "-c", "ulimit -v 16000000; " + cmd], cwd=cwd, env=env, stdout=subprocess.PIPE, stderr=subprocess.STDOUT, text=True, timeout=timeout)
    return p.returncode, p.stdout
args = sys.argv[1:]; J = 6
if args[:1] == ["-j"]:
    J = int(args[1]); args = args[2:]
dirs = [f"/verif/refactors/{a}/" for a in args] or sorted(glob.glob("/verif/refactors/*/"))
head = subprocess.check_output(["git", "-C", "/repo", "rev-parse", "--short", "HEAD"], text=True).strip()
wts = queue.Queue(); all_wts = []
for i in range(min(J, len(dirs))):
    wt = tempfile.mkdtemp(prefix="reverifyr-"); os.rmdir(wt)
    rc, out = sh(f"git -C /repo worktree add -q --detach {wt} HEAD"); assert rc == 0, out
    wts.put(wt); all_wts.append(wt)
def one(d):
    wt = wts.get(); name = d.rstrip("/").split("/")[-1]; r = {"commit": head}
    try:
        rc, out = sh(f"git apply {d}patch.diff", cwd=wt); r["applies"] = rc == 0
        if rc: return name, r
        rc, out = sh("go build ./...", cwd=wt); r["builds"] = rc == 0
        if rc: return name, r
        rc, out = sh(f"/verif/tools/baseline.sh {wt}"); r["suite_passes"] = rc == 0
        if rc: r["tail"] = out.strip().splitlines()[-4:]
        try:
            m = json.load(open(d + "meta.json")); m["reverified"] = {k: v for k, v in r.items() if k != "tail"}
            json.dump(m, open(d + "meta.json", "w"), indent=1)
        except Exception as e:
            r["meta_error"] = str(e)
        return name, r
    finally:
        sh("git checkout -q -- . && git clean -fdq", cwd=wt); wts.put(wt)
try:
    with ThreadPoolExecutor(max_workers=J) as ex:
        rows = list(ex.map(one, dirs))
finally:
    for wt in all_wts:
        sh(f"git -C /repo worktree remove --force {wt}"); shutil.rmtree(wt, ignore_errors=True)
bad = 0
for n, r in rows:
    ok = r.get("applies") and r.get("builds") and r.get("suite_passes")
    bad += 0 if ok else 1
    print(f"{n:8} {'ok' if ok else 'NOT CONFIRMED ' + json.dumps(r)[:500]}")
print(f"confirmed at {head}: {len(rows)-bad}/{len(rows)}")
