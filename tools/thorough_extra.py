#!/usr/bin/env python3
"""thorough_extra.py <property> — the thorough tier's additional work, after vuegocheck has decided
the property on /repo's working tree and written evidence/<property>.json:

 1. rule sensitivity on kept faulty changes: every change under /verif/seeded/ that breaks this
    property is applied to a scratch worktree of /repo's HEAD and the property's rules must report it;
 2. regression of repaired defects: for every `fixed` entry of known_findings.json for this property
    the rules are run on a scratch worktree of the commit *before* the fix and must fire there;
 3. cross-reference output of generic tools (go vet, staticcheck, errcheck) — informational only.

Nothing here can turn into a VIOLATION for /repo: a rule that fails to fire on a known-bad variant is
a weakness of the checker, reported as a WARNING line and in the evidence. Scratch worktrees live
under $TMPDIR and are removed. The analysis of every variant is static (no code of it is executed)."""
import glob, json, os, re, shutil, subprocess, sys, tempfile, time

prop = sys.argv[1]
V = os.path.dirname(os.path.dirname(os.path.abspath(__file__)))
REPO = os.environ.get("VERIF_REPO", "/repo")
cenv = dict(os.environ, PATH="/opt/veriftools/go1.26.8/bin:" + os.environ["PATH"], GOTOOLCHAIN="local", GOFLAGS="-mod=mod", GOPROXY="off", GOWORK="off")

def sh(cmd, cwd=None, env=None, timeout=900):
    try:
        p = subprocess.run(["bash", "-c", cmd], cwd=cwd, env=env or os.environ, stdout=subprocess.PIPE, stderr=subprocess.STDOUT, text=True, timeout=timeout)
        return p.returncode, p.stdout
    except subprocess.TimeoutExpired:
        return 124, "timeout"

def run_rules(tree):
    rc, out = sh(f"{V}/bin/vuegocheck -property {prop} -tier thorough -no-evidence -repo {tree} -verif {V}", env=cenv)
    fired = sorted(set(re.findall(r"^\s+(C\d+\.R\d+[a-z]?) ", out, re.M)))
    viol = len(re.findall(r"^VIOLATION property=", out, re.M))
    return rc, fired, viol

start = time.time()
ev_path = os.path.join(V, "evidence", prop + ".json")
ev = json.load(open(ev_path))
extra = {"sensitivity_on_seeded_changes": [], "regression_on_pre_fix_commits": [], "cross_reference": {}}
have_git = sh(f"git -C {REPO} rev-parse HEAD")[0] == 0
warnings = []

if have_git:
    wt = tempfile.mkdtemp(prefix="vuegocheck-thorough-"); os.rmdir(wt)
    try:
        rc, out = sh(f"git -C {REPO} worktree add -q --detach {wt} HEAD")
        if rc == 0:
            for d in sorted(glob.glob(os.path.join(V, "seeded", "*", ""))):
                meta = json.load(open(d + "meta.json"))
                if meta.get("breaks_property") != prop:
                    continue
                rc, out = sh(f"git apply {d}patch.diff", cwd=wt)
                if rc != 0:
                    extra["sensitivity_on_seeded_changes"].append({"id": meta["id"], "result": "patch does not apply to the current HEAD (skipped)"})
                    continue
                rc, fired, viol = run_rules(wt)
                sh("git checkout -q -- . && git clean -fdq", cwd=wt)
                killed = rc == 1 and viol > 0
                extra["sensitivity_on_seeded_changes"].append({"id": meta["id"], "summary": (meta.get("summary") or "")[:160], "reported": killed, "rules": fired})
                if not killed:
                    warnings.append(f"seeded change {meta['id']} is not reported by the {prop} rules")
            # pre-fix commits
            kf = json.load(open(os.path.join(V, "known_findings.json")))["findings"]
            seen = set()
            for f in kf:
                if f.get("status") != "fixed" or f.get("property") != prop or not f.get("commit") or f["commit"] in seen:
                    continue
                seen.add(f["commit"])
                rc, out = sh(f"git checkout -q --detach {f['commit']}^", cwd=wt)
                if rc != 0:
                    extra["regression_on_pre_fix_commits"].append({"commit": f["commit"], "result": "parent commit not available (skipped)"})
                    continue
                rc, fired, viol = run_rules(wt)
                want = set(f.get("rule", "").split(","))
                ok = rc == 1 and viol > 0 and (not (want - {""}) or bool(want & set(fired)))
                extra["regression_on_pre_fix_commits"].append({"fix_commit": f["commit"], "what_failed": f.get("what", "")[:160], "rule_expected": sorted(want), "reported_before_fix": ok, "rules": fired})
                if not ok:
                    warnings.append(f"the tree before fix {f['commit']} is not reported by the {prop} rules")
            sh("git checkout -q --detach HEAD", cwd=wt)
    finally:
        sh(f"git -C {REPO} worktree remove --force {wt}")
        shutil.rmtree(wt, ignore_errors=True)
else:
    extra["note"] = "no git metadata in the repository: sensitivity and regression runs skipped"

# cross-reference tools (informational)
for name, cmd in (("go vet", "go vet ./... 2>&1 | grep -v '^#' | wc -l"), ("staticcheck", "staticcheck ./... 2>&1 | wc -l"), ("errcheck -blank", "errcheck -blank ./... 2>&1 | wc -l")):
    rc, out = sh(f"cd {REPO} && timeout 300 {cmd}", env=cenv)
    extra["cross_reference"][name] = {"report_lines": out.strip().splitlines()[-1] if out.strip() else "", "role": "informational; decides nothing"}

cov = ev["coverage"]
cov["thorough_extra"] = extra
s = extra["sensitivity_on_seeded_changes"]
r = extra["regression_on_pre_fix_commits"]
cov["seeded_changes_reported"] = sum(1 for x in s if x.get("reported"))
cov["seeded_changes_run"] = sum(1 for x in s if "reported" in x)
cov["pre_fix_trees_reported"] = sum(1 for x in r if x.get("reported_before_fix"))
cov["pre_fix_trees_run"] = sum(1 for x in r if "reported_before_fix" in x)
cov["explanation"] += f" | thorough tier additionally ran the rules on {cov['seeded_changes_run']} kept faulty variants (reported: {cov['seeded_changes_reported']}) and on {cov['pre_fix_trees_run']} pre-fix commits of repaired defects (reported: {cov['pre_fix_trees_reported']}), all in scratch worktrees, statically."
ev["wall_s"] = round(ev.get("wall_s", 0) + time.time() - start, 2)
json.dump(ev, open(ev_path, "w"), indent=1)
print(f"{prop} thorough extras: seeded variants reported {cov['seeded_changes_reported']}/{cov['seeded_changes_run']}; pre-fix trees reported {cov['pre_fix_trees_reported']}/{cov['pre_fix_trees_run']}")
for w in warnings:
    print("WARNING (checker sensitivity, not a property violation):", w)
