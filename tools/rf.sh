#!/bin/bash
# rf.sh <patch-dir|patch.diff> [vuegocheck args...] — apply a patch to the scratch worktree /tmp/rf (fresh from /repo HEAD) and run vuegocheck on it (debugging aid)
export PATH=/opt/veriftools/go1.26.8/bin:$PATH GOTOOLCHAIN=local GOFLAGS=-mod=mod GOPROXY=off GOWORK=off
p="$1"; shift
[ -d "$p" ] && p="$p/patch.diff"
if [ -d /tmp/rf ]; then git -C /tmp/rf checkout -q -- . && git -C /tmp/rf clean -fdq && git -C /tmp/rf checkout -q --detach $(git -C /repo rev-parse HEAD); else git -C /repo worktree add -q --detach /tmp/rf HEAD; fi
git -C /tmp/rf apply "$p" || exit 3
${VC_BIN:-/verif/bin/vuegocheck} -no-evidence -repo /tmp/rf -verif /verif "$@"
