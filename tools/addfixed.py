#!/usr/bin/env python3
"""addfixed.py <props,comma> <rules,comma> <commit> <what failed> — record a repaired defect (suppresses nothing)."""
import json,sys
props,rules,commit,what=sys.argv[1:5]
p='/verif/known_findings.json'
d=json.load(open(p))
for pr in props.split(','):
    d['findings'].append({"property":pr,"rule":rules,"key":"","status":"fixed","commit":commit,"what":what,
      "line":f"fixed: property={pr} {commit} {what}"})
json.dump(d,open(p,'w'),indent=1); open(p,'a').write('\n')
