#!/bin/bash
# Runs the repository's pinned test suite (no build tags) and compares with /root/.vp/BASELINE.json stable_pass.
# usage: baseline.sh [repo-dir]
REPO="${1:-/repo}"
export GOFLAGS=-mod=mod GOPROXY=off
unset GOTOOLCHAIN GOSUMDB GOWORK
OUT=$(mktemp)
(cd "$REPO" && go test -json -vet=off -count=1 -timeout 25m ./... > "$OUT" 2>/dev/null)
python3 - "$OUT" <<'PY'
import json,sys
passed=set(); failed=set()
for line in open(sys.argv[1]):
    try: e=json.loads(line)
    except Exception: continue
    t=e.get('Test')
    if not t: continue
    k=e['Package']+'::'+t
    if e.get('Action')=='pass': passed.add(k)
    elif e.get('Action')=='fail': failed.add(k)
base=json.load(open('/root/.vp/BASELINE.json'))
sp=set(base['stable_pass'])
missing=sorted(sp-passed)
newfail=sorted(failed-set(base.get('always_fail',[])))
print(f"baseline: {len(sp&passed)}/{len(sp)} stable tests pass; failing-not-in-always_fail={len(newfail)}")
for m in missing[:20]: print("  MISSING/FAILED:",m)
for m in newfail[:20]: print("  NEW FAIL:",m)
sys.exit(1 if missing or newfail else 0)
PY
RC=$?
rm -f "$OUT"
exit $RC
