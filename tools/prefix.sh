#!/bin/bash
# prefix.sh <fix-commit> <property> <rule> [binary] — run one rule on the tree just before a fix commit (scratch worktree /tmp/rf2): it must report a violation there
export PATH=/opt/veriftools/go1.26.8/bin:$PATH GOTOOLCHAIN=local GOFLAGS=-mod=mod GOPROXY=off GOWORK=off
bin=${4:-/verif/bin/vuegocheck}
[ -d /tmp/rf2 ] || git -C /repo worktree add -q --detach /tmp/rf2 HEAD
git -C /tmp/rf2 reset -q --hard && git -C /tmp/rf2 clean -fdq && git -C /tmp/rf2 checkout -q --detach "$1~1" || exit 3
$bin -no-evidence -repo /tmp/rf2 -verif /verif -property "$2" -rule "$3" 2>&1 | grep -v "^VIOLATION\|^NOTE" | cut -c1-260 | tail -4
