// Demonstrations of the genuine defects found by the static rules (DESIGN.md section 3).
// Each test fails at the pinned commit 4474503 and passes after the corresponding "fix:" commit.
// Not part of any registered check: copy into a scratch worktree of the repository root and run
//
//	go test -run 'TestFinding' -count=1 .
//
// under `timeout` and `ulimit -v` (the unrepaired code loops / exhausts memory on some of them).
package vuego_test

import (
	"bytes"
	"context"
	"errors"
	"fmt"
	"io/fs"
	"math"
	"runtime/debug"
	"strings"
	"testing"
	"testing/fstest"
	"time"

	"github.com/titpetric/vuego"
	"golang.org/x/net/html"
	"golang.org/x/net/html/atom"
)

func renderStr(t *testing.T, tpl string, data any) (out string, err error) {
	t.Helper()
	defer func() {
		if r := recover(); r != nil {
			err = errors.New("PANIC: " + strings.SplitN(strings.TrimSpace(toString(r)), "\n", 2)[0])
		}
	}()
	var buf bytes.Buffer
	err = vuego.New().Fill(data).RenderString(context.Background(), &buf, tpl)
	return buf.String(), err
}

func toString(v any) string {
	if e, ok := v.(error); ok {
		return e.Error()
	}
	if s, ok := v.(string); ok {
		return s
	}
	return "panic"
}

func renderFS(t *testing.T, files map[string]string, page string, data any, opts ...vuego.LoadOption) (out string, err error) {
	t.Helper()
	defer func() {
		if r := recover(); r != nil {
			err = errors.New("PANIC: " + toString(r))
		}
	}()
	m := fstest.MapFS{}
	for k, v := range files {
		m[k] = &fstest.MapFile{Data: []byte(v), ModTime: time.Unix(1, 0)}
	}
	var buf bytes.Buffer
	err = vuego.NewFS(m, opts...).Fill(data).RenderFile(context.Background(), &buf, page)
	return buf.String(), err
}

// row 1 — C11.R1/C14.R5
func TestFinding01_StyleMergeNonString(t *testing.T) {
	_, err := renderStr(t, `<p style="color:red" :style="n">x</p>`, map[string]any{"n": 5})
	if err != nil {
		t.Fatalf("render failed: %v", err)
	}
}

type hiddenT struct {
	Public string
	hidden string
}

// row 2 — C11.R2/C17.R4
func TestFinding02_UnexportedField(t *testing.T) {
	out, err := renderStr(t, `<p>[{{ s.hidden }}]</p>`, map[string]any{"s": hiddenT{"a", "b"}})
	if err != nil || !strings.Contains(out, "[]") {
		t.Fatalf("want absence, got %q err=%v", out, err)
	}
}

type innerT struct{ X string }
type outerT struct{ *innerT }

// row 2b
func TestFinding02b_NilEmbeddedPointer(t *testing.T) {
	out, err := renderStr(t, `<p>[{{ s.X }}]</p>`, map[string]any{"s": outerT{}})
	if err != nil || !strings.Contains(out, "[]") {
		t.Fatalf("want absence, got %q err=%v", out, err)
	}
}

// row 3
func TestFinding03_IntKeyMap(t *testing.T) {
	out, err := renderStr(t, `<p>[{{ m.foo }}]</p>`, map[string]any{"m": map[int]string{1: "a"}})
	if err != nil || !strings.Contains(out, "[]") {
		t.Fatalf("want absence, got %q err=%v", out, err)
	}
}

// row 4
func TestFinding04_SecondResultNotError(t *testing.T) {
	var buf bytes.Buffer
	var err error
	func() {
		defer func() {
			if r := recover(); r != nil {
				err = errors.New("PANIC: " + toString(r))
			}
		}()
		tpl := vuego.New(vuego.WithFuncs(vuego.FuncMap{"two": func(i int) (string, int) { return "v", 7 }}))
		err = tpl.Fill(map[string]any{"n": 1}).RenderString(context.Background(), &buf, `<p>{{ n | two }}</p>`)
	}()
	if err != nil {
		t.Fatalf("render failed: %v", err)
	}
}

// row 5 — C11.R3 (run under timeout/ulimit: the unrepaired code never returns)
func TestFinding05_SelfInclude(t *testing.T) {
	_, err := renderFS(t, map[string]string{"page.vuego": `<div><template include="page.vuego"></template></div>`}, "page.vuego", nil)
	if err == nil || !strings.Contains(err.Error(), "include depth") {
		t.Fatalf("want an include-depth error, got %v", err)
	}
	_, err = renderFS(t, map[string]string{
		"a.vuego": `<template><p>a</p><template include="b.vuego"></template></template>`,
		"b.vuego": `<template><p>b</p><template include="a.vuego"></template></template>`,
	}, "a.vuego", nil)
	if err == nil || !strings.Contains(err.Error(), "include depth") {
		t.Fatalf("want an include-depth error for the a<->b cycle, got %v", err)
	}
}

type cycT struct {
	Name string
	Next *cycT
}

// row 6 — fatal stack overflow in the unrepaired code
func TestFinding06_CyclicStruct(t *testing.T) {
	c := &cycT{Name: "n"}
	c.Next = c
	out, err := renderStr(t, `<p>{{ Name }}</p>`, c)
	if err != nil || !strings.Contains(out, "n") {
		t.Fatalf("got %q err=%v", out, err)
	}
}

type failWriter struct{ n int }

func (f *failWriter) Write(p []byte) (int, error) {
	if f.n <= 0 {
		return 0, errors.New("disk full")
	}
	f.n--
	return len(p), nil
}

// row 7 — C12.R1
func TestFinding07_WriterFailure(t *testing.T) {
	m := fstest.MapFS{"p.vuego": &fstest.MapFile{Data: []byte(`<div><p>a</p><p>b</p></div>`)}}
	for n := 0; n < 3; n++ {
		err := vuego.NewFS(m).RenderFile(context.Background(), &failWriter{n: n}, "p.vuego")
		if err == nil {
			t.Fatalf("writer failing after %d writes: Render returned nil", n)
		}
	}
}

// row 9 — C09.R3/C10.R2
func TestFinding09_CallerMapWritten(t *testing.T) {
	m := fstest.MapFS{"p.vuego": &fstest.MapFile{Data: []byte("---\ntitle: T\n---\n<p>{{ title }}</p>")}}
	data := map[string]any{"x": 1}
	var buf bytes.Buffer
	if err := vuego.NewVue(m).Render(&buf, "p.vuego", data); err != nil {
		t.Fatal(err)
	}
	if len(data) != 1 {
		t.Fatalf("caller's map was modified: %v", data)
	}
}

// row 11 — C10.R1/C14.R4
func TestFinding11_DeterministicOrder(t *testing.T) {
	data := map[string]any{"a": "1", "b": "2", "c": "3", "d": "4", "e": "5", "show": false,
		"m": map[string]any{"k1": 1, "k2": 2, "k3": 3, "k4": 4, "k5": 5}}
	tpl := `<p :a="a" :b="b" :c="c" :d="d" :e="e" style="color:red;margin:0;padding:0;border:0" v-show="show">x</p><i v-for="(i, v) in m">{{ i }}={{ v }}</i>`
	first, err := renderStr(t, tpl, data)
	if err != nil {
		t.Fatal(err)
	}
	for i := 0; i < 30; i++ {
		out, _ := renderStr(t, tpl, data)
		if out != first {
			t.Fatalf("output differs between renders:\n%s\n%s", first, out)
		}
	}
	if !strings.Contains(first, `a="1" b="2" c="3" d="4" e="5"`) {
		t.Fatalf("bound attributes not in source order: %s", first)
	}
	if !strings.Contains(first, `color:red;margin:0;padding:0;border:0;display:none;`) {
		t.Fatalf("style declarations not in source order: %s", first)
	}
}

// row 12 — C03.R1
func TestFinding12_NumericZeroFalsy(t *testing.T) {
	for _, z := range []any{int8(0), int16(0), int32(0), uint(0), uint8(0), uint64(0), float32(0)} {
		out, err := renderStr(t, `<p v-if="z">shown</p>`, map[string]any{"z": z})
		if err != nil || strings.Contains(out, "shown") {
			t.Fatalf("%T(0) is truthy: %q err=%v", z, out, err)
		}
	}
}

type rootT struct{ Name string }

// row 13 — C04.R4/C08.R2/C17.R1
func TestFinding13_AssignOverStructRoot(t *testing.T) {
	var buf bytes.Buffer
	err := vuego.New().Fill(rootT{Name: "struct"}).Assign("Name", "assigned").RenderString(context.Background(), &buf,
		`<p>{{ Name }}</p><b v-if="Name == 'assigned'">ok</b>`)
	if err != nil || !strings.Contains(buf.String(), "<p>assigned</p>") || !strings.Contains(buf.String(), "ok") {
		t.Fatalf("Assign lost: %q err=%v", buf.String(), err)
	}
}

// row 14 — C15.R2b
func TestFinding14_DeletedFileServedFromCache(t *testing.T) {
	m := fstest.MapFS{"p.vuego": &fstest.MapFile{Data: []byte(`<p>old</p>`), ModTime: time.Unix(5, 0)}}
	v := vuego.NewVue(m)
	var buf bytes.Buffer
	if err := v.Render(&buf, "p.vuego", nil); err != nil {
		t.Fatal(err)
	}
	delete(m, "p.vuego")
	buf.Reset()
	if err := v.Render(&buf, "p.vuego", nil); err == nil {
		t.Fatalf("deleted page still rendered from the cache: %q", buf.String())
	}
}

// row 15 — C18.R4
func TestFinding15_EmptyDirInUpperLayer(t *testing.T) {
	upper := fstest.MapFS{"d": &fstest.MapFile{Mode: fs.ModeDir}}
	lower := fstest.MapFS{"x.txt": &fstest.MapFile{Data: []byte("x")}}
	ents, err := vuego.NewOverlayFS(upper, lower).ReadDir("d")
	if err != nil || len(ents) != 0 {
		t.Fatalf("want empty listing, got %v err=%v", ents, err)
	}
}

// row 16 — C05.R4
func TestFinding16_ShorthandInsideComponent(t *testing.T) {
	out, err := renderFS(t, map[string]string{
		"page.vuego":           `<div><my-a></my-a></div>`,
		"components/MyA.vuego": `<section><my-b></my-b></section>`,
		"components/MyB.vuego": `<em>inner</em>`,
	}, "page.vuego", nil, vuego.WithComponents())
	if err != nil || !strings.Contains(out, "<em>inner</em>") || strings.Contains(out, "my-b") {
		t.Fatalf("shorthand inside a component not resolved: %q err=%v", out, err)
	}
}

// rows 17a/17c — C01.R1
func TestFinding17_DataIsNotReEvaluated(t *testing.T) {
	data := map[string]any{"secret": "S3CRET", "items": []string{"{{ secret }}"}, "x": "{{ secret }}"}
	for _, tpl := range []string{
		`<p v-for="i in items" title="{{ i }}">a</p>`,
		`<div v-if="true"><p v-for="i in items" title="{{ i }}">a</p></div>`,
		`<p v-text="x"></p>`,
	} {
		out, err := renderStr(t, tpl, data)
		if err != nil || strings.Contains(out, "S3CRET") {
			t.Fatalf("%s: data evaluated as template code: %q err=%v", tpl, out, err)
		}
	}
}

// row 19a — C02.R1
func TestFinding19a_Doctype(t *testing.T) {
	out, err := renderFS(t, map[string]string{"p.vuego": "<!DOCTYPE html><html><head></head><body><p>x</p></body></html>"}, "p.vuego", nil)
	if err != nil || !strings.Contains(strings.ToLower(out), "<!doctype html>") {
		t.Fatalf("doctype dropped: %q err=%v", out, err)
	}
}

// row 25 (found by C09.R3 while building the checker) — C09.R3/C10.R2
func TestFinding25_RenderNodesWritesCallerMap(t *testing.T) {
	nodes, err := html.ParseFragment(strings.NewReader(`<template :x="5"></template><p>{{ x }}</p>`), &html.Node{Type: html.ElementNode, Data: "body", DataAtom: atom.Body})
	if err != nil {
		t.Fatal(err)
	}
	data := map[string]any{"a": 1}
	var buf bytes.Buffer
	if err := vuego.NewVue(nil).RenderNodes(&buf, nodes, data); err != nil {
		t.Fatal(err)
	}
	if len(data) != 1 {
		t.Fatalf("caller's map was modified by RenderNodes: %v (out %q)", data, buf.String())
	}
}

// rows 26–28: found by independent seeding agents while reading the code (session 3), confirmed here.

// row 26 — C06.R1 / C01: the scoped-slot <template> node is shared by every use of the slot
func TestFinding26_ScopedSlotContentIsPrivatePerUse(t *testing.T) {
	out, err := renderFS(t, map[string]string{
		"page.vuego": `<template include="list.vuego"><template v-slot="p"><template include="row.vuego" label="{{ p.item }}"></template></template></template>`,
		"list.vuego": `<ul><li v-for="it in items"><slot :item="it"></slot></li></ul>`,
		"row.vuego":  `<b>{{ label }}</b>`,
	}, "page.vuego", map[string]any{"items": []string{"one", "{{ secret }}", "three"}, "secret": "LEAK"})
	if err != nil || strings.Contains(out, "LEAK") || !strings.Contains(out, "three") {
		t.Fatalf("scoped slot content shared between uses: %q err=%v", out, err)
	}
}

// row 27 — C11.R7: <slot> inside supplied slot content (stack overflow kills the test binary when broken)
func TestFinding27_SlotInsideSlotContentTerminates(t *testing.T) {
	out, err := renderFS(t, map[string]string{
		"page.vuego": `<template include="c.vuego"><div><slot></slot></div></template>`,
		"c.vuego":    `<section><slot></slot></section>`,
	}, "page.vuego", map[string]any{})
	if err != nil || !strings.Contains(out, "<section>") {
		t.Fatalf("out=%q err=%v", out, err)
	}
	fsys := fstest.MapFS{
		"page.vuego":         &fstest.MapFile{Data: []byte("---\nlayout: main\n---\n<template v-slot:side><i>S</i><slot name=\"side\"></slot></template><p>body</p>")},
		"layouts/main.vuego": &fstest.MapFile{Data: []byte(`<main><slot name="side"></slot><div v-html="content"></div></main>`)},
	}
	var buf bytes.Buffer
	if err := vuego.NewFS(fsys).Load("page.vuego").Render(context.Background(), &buf); err != nil {
		t.Fatalf("err=%v", err)
	}
}

// row 28 — C07.R8: a self-referencing layout that embeds content twice (2^100 growth when broken; run under ulimit -v)
func TestFinding28_CircularLayoutIsReportedAtOnce(t *testing.T) {
	fsys := fstest.MapFS{
		"page.vuego":         &fstest.MapFile{Data: []byte("---\nlayout: loop\n---\n<p>0123456789012345678901234567890123456789</p>")},
		"layouts/loop.vuego": &fstest.MapFile{Data: []byte("---\nlayout: loop\n---\n<div v-html=\"content\"></div><div v-html=\"content\"></div>")},
	}
	var buf bytes.Buffer
	err := vuego.NewFS(fsys).Load("page.vuego").Render(context.Background(), &buf)
	if err == nil || !strings.Contains(err.Error(), "layout chain") {
		t.Fatalf("want a layout cycle error, got %v (%d bytes)", err, buf.Len())
	}
}

// row 29 — C03.R6 (found by the rule): <template v-html> was returned as output with its sibling link intact
func TestFinding29_TemplateVHtmlDoesNotDragSiblings(t *testing.T) {
	out, err := renderFS(t, map[string]string{
		"p.vuego": `<div><template v-html="x"></template><p v-if="no">hidden {{ secret }}</p></div>`,
	}, "p.vuego", map[string]any{"x": "<b>ok</b>", "no": false, "secret": "S"})
	if err != nil || strings.Contains(out, "hidden") || !strings.Contains(out, "<b>ok</b>") {
		t.Fatalf("a falsy v-if branch after <template v-html> is rendered: %q err=%v", out, err)
	}
}

// row 31 — C06.R2 (recorded as an open finding in session 2, repaired in session 3)
func TestFinding31_NestedComponentGetsItsOwnSlotContent(t *testing.T) {
	files := map[string]string{
		"page.vuego": `<template include="a.vuego">OUTER</template>`,
		"a.vuego":    `<div><template include="b.vuego">INNER</template><slot></slot></div>`,
		"b.vuego":    `<b><slot></slot></b>`,
	}
	out, err := renderFS(t, files, "page.vuego", map[string]any{})
	if got := strings.Join(strings.Fields(out), ""); err != nil || got != "<div><b>INNER</b>OUTER</div>" {
		t.Fatalf("got %q err=%v", got, err)
	}
	files["a.vuego"] = `<div><template include="b.vuego"><i><slot></slot></i></template></div>`
	out, err = renderFS(t, files, "page.vuego", map[string]any{})
	if got := strings.Join(strings.Fields(out), ""); err != nil || got != "<div><b><i>OUTER</i></b></div>" {
		t.Fatalf("forwarding: got %q err=%v", got, err)
	}
}

// row 32 — C16.R7 (found by the rule): v-once together with v-for on one element rendered nothing
func TestFinding32_OnceOnALoopingElementEmitsTheFirstInstance(t *testing.T) {
	out, err := renderFS(t, map[string]string{
		"p.vuego": `<ul><li v-once v-for="x in xs">{{ x }}</li></ul>`,
	}, "p.vuego", map[string]any{"xs": []int{1, 2, 3}})
	if got := strings.Join(strings.Fields(out), ""); err != nil || got != "<ul><li>1</li></ul>" {
		t.Fatalf("got %q err=%v", got, err)
	}
}

// row 33 — C13.R10: expressions the substring classifier does not know were dropped in value positions
func TestFinding33_PrefixAndWordOperatorsAreEvaluatedEverywhere(t *testing.T) {
	data := map[string]any{"x": false, "n": 3, "items": []int{3, 4}}
	for src, want := range map[string]string{
		`<p>{{ !x }}</p>`:             `<p>true</p>`,
		`<p :title="!x">a</p>`:        `<ptitle="true">a</p>`,
		`<p>{{ -n }}</p>`:             `<p>-3</p>`,
		`<p>{{ (n) }}</p>`:            `<p>3</p>`,
		`<p>{{ n in items }}</p>`:     `<p>true</p>`,
		`<p v-text="not x"></p>`:      `<p>true</p>`,
		`<p v-if="n in items">in</p>`: `<p>in</p>`,
		`<p>{{ missing.path }}</p>`:   `<p></p>`,
		`<p>{{ hyphen-key }}</p>`:     `<p></p>`,
	} {
		out, err := renderFS(t, map[string]string{"p.vuego": src}, "p.vuego", data)
		if got := strings.Join(strings.Fields(out), ""); err != nil || got != want {
			t.Errorf("%s: got %q err=%v, want %q", src, got, err, want)
		}
	}
}

// row 34 — C03.R8 (found by cross-checking the two element paths): the member selected by a chain lost directives
func TestFinding34_ChainMembersAreEvaluatedLikeAnyOtherElement(t *testing.T) {
	files := map[string]string{"c.vuego": `<b>comp</b>`}
	data := map[string]any{"no": false, "yes": true, "xs": []int{1, 2}, "s": "S"}
	for src, want := range map[string]string{
		`<p v-if="yes" v-text="s"></p>`:                                    `<p>S</p>`,
		`<p v-if="no">A</p><p v-else v-text="s"></p>`:                      `<p>S</p>`,
		`<p v-if="yes" v-show="no">x</p>`:                                  `<pstyle="display:none;">x</p>`,
		`<template v-if="yes" include="c.vuego"></template>`:               `<b>comp</b>`,
		`<p v-if="no">A</p><template v-else include="c.vuego"></template>`: `<b>comp</b>`,
		`<p v-if="no">A</p><li v-else v-for="x in xs">{{ x }}</li>`:        `<li>1</li><li>2</li>`,
	} {
		files["p.vuego"] = src
		out, err := renderFS(t, files, "p.vuego", data)
		if got := strings.Join(strings.Fields(out), ""); err != nil || got != want {
			t.Errorf("%s: got %q err=%v, want %q", src, got, err, want)
		}
	}
}

// row 35 — C02.R7: the serialiser dropped the namespace prefix of foreign attributes
func TestFinding35_AttributeNamespacePrefixSurvives(t *testing.T) {
	out, err := renderFS(t, map[string]string{
		"p.vuego": `<svg xmlns:xlink="http://www.w3.org/1999/xlink"><image xlink:href="a.png" xml:lang="en"></image></svg>`,
	}, "p.vuego", map[string]any{})
	if err != nil || !strings.Contains(out, `xlink:href="a.png"`) || !strings.Contains(out, `xml:lang="en"`) || !strings.Contains(out, `xmlns:xlink=`) {
		t.Fatalf("got %q err=%v", out, err)
	}
}

// row 37 (parser half) — C19.R9: </HTML> in upper case is a full document too
func TestFinding37_UpperCaseClosingHTMLIsADocument(t *testing.T) {
	out, err := renderFS(t, map[string]string{
		"p.vuego": "<!DOCTYPE html>\n<HTML><HEAD><TITLE>x</TITLE></HEAD><BODY><P>a</P></BODY></HTML>",
	}, "p.vuego", map[string]any{})
	if err != nil || !strings.Contains(out, "<html>") || !strings.Contains(out, "<!DOCTYPE html>") {
		t.Fatalf("got %q err=%v", out, err)
	}
}

// rows 40-58 — defects reported by seeding agents as "already wrong on the unchanged tree", confirmed with probes,
// expressed as rules that fire before the fix, and repaired (session 4, second batch)
func TestFinding40to58_SecondBatch(t *testing.T) {
	type Count int
	fm := vuego.FuncMap{
		"first": func(s []any) any { return s[0] },
		"echo":  func(s string) string { return s },
	}
	render := func(files map[string]string, data any) (string, error) {
		mfs := fstest.MapFS{}
		for k, v := range files {
			mfs[k] = &fstest.MapFile{Data: []byte(v)}
		}
		var buf bytes.Buffer
		err := vuego.NewVue(mfs).Funcs(fm).Render(&buf, "p.vuego", data)
		return strings.Join(strings.Fields(buf.String()), ""), err
	}
	cases := []struct {
		name  string
		files map[string]string
		data  any
		want  string
		err   string
	}{
		{"40 int to string parameter is decimal", map[string]string{"p.vuego": `<p>{{ n | echo }}</p>`}, map[string]any{"n": 65}, "<p>65</p>", ""},
		{"41 panic in a registered function is an error", map[string]string{"p.vuego": `<p>{{ xs | first }}</p>`}, map[string]any{"xs": []any{}}, "", "first()"},
		{"42 missing key of map[string]string", map[string]string{"p.vuego": `<p v-if="m.zzz">found</p><p v-else>absent</p>`}, map[string]any{"m": map[string]string{"a": "x"}}, "<p>absent</p>", ""},
		{"43 zero of a named int is falsy", map[string]string{"p.vuego": `<p v-if="c">t</p><p v-else>f</p><input :disabled="c">`}, map[string]any{"c": Count(0)}, "<p>f</p><input></input>", ""},
		{"46 nbsp is content", map[string]string{"p.vuego": "<b>a</b>&nbsp;<i>b</i>"}, map[string]any{}, "<b>a</b> <i>b</i>", ""},
		{"47 static attribute keeps its spaces", map[string]string{"p.vuego": `<input value=" x ">`}, map[string]any{}, `<inputvalue="x"></input>`, ""},
		{"48 what follows the root template of a component", map[string]string{"p.vuego": `<template include="c.vuego" label="A"></template>`, "c.vuego": "<template :required=\"label\"><button>{{ label }}</button></template>\n<style v-once>.b{}</style>"}, map[string]any{}, "<button>A</button><style>.b{}</style>", ""},
		{"49 falsy bound prop", map[string]string{"p.vuego": `<template include="c.vuego" :n="zero"></template>`, "c.vuego": `<template :required="n"><b>{{ n + 1 }}</b></template>`}, map[string]any{"zero": 0}, "<b>1</b>", ""},
		{"50 quoted argument is a string", map[string]string{"p.vuego": `<p>{{ x | default("name") }}|{{ x | default("10") | type }}</p>`}, map[string]any{"name": "VAR"}, "<p>name|string</p>", ""},
		{"51 variable named t", map[string]string{"p.vuego": `<p>{{ upper(t) }}</p>`}, map[string]any{"t": "tee"}, "<p>TEE</p>", ""},
		{"52 variable named nan", map[string]string{"p.vuego": `<p>{{ upper(nan) }}</p>`}, map[string]any{"nan": "bread"}, "<p>BREAD</p>", ""},
		{"53 destructured slot props", map[string]string{"p.vuego": `<template include="l.vuego"><template v-slot="{ item, index }"><i>{{ index }}:{{ item }}</i></template></template>`, "l.vuego": `<ul><li v-for="(i, x) in xs"><slot :item="x" :index="i">-</slot></li></ul>`}, map[string]any{"xs": []string{"a"}}, "<ul><li><i>0:a</i></li></ul>", ""},
		{"54 slot name with a capital", map[string]string{"p.vuego": `<template include="c.vuego"><template #headerTop><b>H</b></template></template>`, "c.vuego": `<div><slot name="headerTop">fallback</slot></div>`}, map[string]any{}, "<div><b>H</b></div>", ""},
		{"57 style value nil", map[string]string{"p.vuego": `<p :style="{color: missing, width: w}">x</p>`}, map[string]any{"w": "1px"}, `<pstyle="width:1px;">x</p>`, ""},
	}
	for _, tc := range cases {
		got, err := render(tc.files, tc.data)
		if tc.err != "" {
			if err == nil || !strings.Contains(err.Error(), tc.err) {
				t.Errorf("%s: want an error naming %q, got %v (%q)", tc.name, tc.err, err, got)
			}
			continue
		}
		want := tc.want
		if raw := map[string]string{"47 static attribute keeps its spaces": `value=" x "`, "46 nbsp is content": "</b>\n\u00a0<i>"}[tc.name]; raw != "" {
			// whitespace is squeezed out of the comparison string, so look at the raw output instead
			mfs := fstest.MapFS{"p.vuego": &fstest.MapFile{Data: []byte(tc.files["p.vuego"])}}
			var buf bytes.Buffer
			if e := vuego.NewVue(mfs).Render(&buf, "p.vuego", tc.data); e != nil || !strings.Contains(buf.String(), raw) {
				t.Errorf("%s: got %q err=%v", tc.name, buf.String(), e)
			}
			continue
		}
		if err != nil || got != want {
			t.Errorf("%s: got %q err=%v, want %q", tc.name, got, err, want)
		}
	}
}

// row 55 — C02.R10: a full document given as a string keeps its structure
func TestFinding55_RenderStringParsesDocuments(t *testing.T) {
	var buf bytes.Buffer
	err := vuego.New().RenderString(context.Background(), &buf, "<!DOCTYPE html>\n<html lang=\"en\"><head><title>x</title></head><body class=\"b\"><p>a</p></body></html>")
	if err != nil || !strings.Contains(buf.String(), "<!DOCTYPE html>") || !strings.Contains(buf.String(), `<html lang="en">`) || !strings.Contains(buf.String(), `<body class="b">`) {
		t.Fatalf("got %q err=%v", buf.String(), err)
	}
}

// rows 45, 56 — C15.R4 / C07.R11
func TestFinding45and56_CacheEvictionAndLayoutExtension(t *testing.T) {
	fsys := fstest.MapFS{
		"page.vuego":         &fstest.MapFile{Data: []byte("---\nlayout: main.vuego\n---\n<p>body</p>")},
		"layouts/main.vuego": &fstest.MapFile{Data: []byte(`<main v-html="content"></main>`)},
	}
	var buf bytes.Buffer
	if err := vuego.NewFS(fsys).Load("page.vuego").Render(context.Background(), &buf); err != nil || !strings.Contains(buf.String(), "<main><p>body</p>") {
		t.Fatalf("layout named with its extension: got %q err=%v", buf.String(), err)
	}
	// cache: render, delete, recreate under the old mtime with other content
	mt := time.Date(2024, 1, 2, 3, 4, 5, 0, time.UTC)
	cfs := fstest.MapFS{"p.vuego": &fstest.MapFile{Data: []byte("<p>one</p>"), ModTime: mt}}
	v := vuego.NewVue(cfs)
	buf.Reset()
	if err := v.Render(&buf, "p.vuego", nil); err != nil || !strings.Contains(buf.String(), "one") {
		t.Fatalf("first render: %q %v", buf.String(), err)
	}
	delete(cfs, "p.vuego")
	if err := v.Render(&bytes.Buffer{}, "p.vuego", nil); err == nil {
		t.Fatalf("render of a deleted page must fail")
	}
	cfs["p.vuego"] = &fstest.MapFile{Data: []byte("<p>two</p>"), ModTime: mt}
	buf.Reset()
	if err := v.Render(&buf, "p.vuego", nil); err != nil || !strings.Contains(buf.String(), "two") {
		t.Fatalf("recreated page: got %q err=%v", buf.String(), err)
	}
}

// rows 60-64 — literals, computed indexes, pipe heads and strict operators in value positions (C13.R10/R14/R15/R17)
func TestFinding60to64_LiteralsAndStrictOperators(t *testing.T) {
	data := map[string]any{"n": 3, "items": []string{"a", "b"}, "idx": 1, "x": 1, "y": 2}
	for src, want := range map[string]string{
		`<p>{{ 'hello' }}</p>`:                `<p>hello</p>`,
		`<p>{{ 5 }}</p>`:                      `<p>5</p>`,
		`<p>{{ items[idx] }}</p>`:             `<p>b</p>`,
		`<p>{{ "hello" | upper }}</p>`:        `<p>HELLO</p>`,
		`<p>{{ n !== 3 }}|{{ n === 3 }}</p>`:  `<p>false|true</p>`,
		`<p v-show="x !== y">s</p>`:           `<p>s</p>`,
		`<p :class="{on: x !== y}">c</p>`:     `<pclass="on">c</p>`,
		`<p>{{ missing | default("d") }}</p>`: `<p>d</p>`,
	} {
		out, err := renderFS(t, map[string]string{"p.vuego": src}, "p.vuego", data)
		if got := strings.Join(strings.Fields(out), ""); err != nil || got != want {
			t.Errorf("%s: got %q err=%v, want %q", src, got, err, want)
		}
	}
}

// row 65 — the empty expression has no value (C13.R19); a regression of repair 33, found when the kept seeded
// changes were re-confirmed against a later HEAD (the demonstration of C11c failed without its change)
func TestFinding65_EmptyExpressionHasNoValue(t *testing.T) {
	for src, want := range map[string]string{
		`<p>{{ }}</p>`:          `<p></p>`,
		`<p>{{}}</p>`:           `<p></p>`,
		`<p :title="">x</p>`:    `<p>x</p>`,
		`<p :class="">x</p>`:    `<p>x</p>`,
		`<a title="{{}}">x</a>`: `<atitle="">x</a>`,
	} {
		out, err := renderFS(t, map[string]string{"p.vuego": src}, "p.vuego", map[string]any{})
		if got := strings.Join(strings.Fields(out), ""); err != nil || got != want {
			t.Errorf("%s: got %q err=%v, want %q", src, got, err, want)
		}
	}
}

// row 66 — data that contains itself is printed without ending the process (C11.R11). Before the repair this
// test does not fail, it kills the test binary: "fatal error: stack overflow".
func TestFinding66_CyclicDataIsPrintable(t *testing.T) {
	m := map[string]any{"a": 1}
	m["self"] = m
	s := []any{1, nil}
	s[1] = s
	for _, x := range []any{m, s, map[string]any{"deep": []any{m}}} {
		for _, src := range []string{`<p>{{ x }}</p>`, `<p :title="x" :class="x" class="c">t</p>`, `<p v-text="x"></p><p v-html="x"></p>`, `<p :style="{color: x}">z</p>`, `<p>{{ x | string }}{{ x | trim }}</p>`} {
			out, err := renderFS(t, map[string]string{"p.vuego": src}, "p.vuego", map[string]any{"x": x})
			if err != nil || !strings.Contains(out, "(cyclic)") {
				t.Errorf("%s: got %q err=%v", src, out, err)
			}
		}
	}
}

// rows 67, 68, 72-76 — v-show last (C03.R8), <noscript> as markup (C02.R11), the chain consumed as a whole
// (C03.R12), the empty v-if (C03.R13), negative zero (C03.R14), === in literals (C13.R21), keyword literals (C13.R22)
func TestFinding67to76_ThirdBatch(t *testing.T) {
	data := map[string]any{"s": false, "a": false, "b": true, "t": true, "xs": []int{1, 2}, "nz": math.Copysign(0, -1), "str": "a===b"}
	for src, want := range map[string]string{
		`<p v-show="s" :style="{display: 'block'}">a</p>`:                                                  `<pstyle="display:none;">a</p>`,
		`<div><noscript><img src="a.png"></noscript></div>`:                                                `<div><noscript><imgsrc="a.png"></img></noscript></div>`,
		`<p v-if="a">A</p><p v-else-if="b">B</p><p v-else-if="t" v-for="x in xs">{{x}}</p><p v-else>E</p>`: `<p>B</p>`,
		`<p v-if="">A</p><p v-else>B</p>`:                                                                  `<p>B</p>`,
		`<p v-if="nz">1</p><p v-else>0</p>`:                                                                `<p>0</p>`,
		`<p>{{ 'a===b' }}</p><p v-if="str == 'a===b'">y</p>`:                                               `<p>a===b</p><p>y</p>`,
		`<p>[{{ true }}][{{ true | type }}]</p><input :disabled="true">`:                                   `<p>[true][bool]</p><inputdisabled="true"></input>`,
	} {
		out, err := renderFS(t, map[string]string{"p.vuego": src}, "p.vuego", data)
		if got := strings.Join(strings.Fields(out), ""); err != nil || got != want {
			t.Errorf("%s: got %q err=%v, want %q", src, got, err, want)
		}
	}
}

// row 71 — C18.R9
func TestFinding71_OverlayReadDirWithoutLayers(t *testing.T) {
	o := vuego.NewOverlayFS(nil, nil)
	if _, err := o.ReadDir("no/such/dir"); !errors.Is(err, fs.ErrNotExist) {
		t.Fatalf("ReadDir of a path in no layer: err=%v, want not-exist", err)
	}
	if ents, err := o.ReadDir("."); err != nil || len(ents) != 0 {
		t.Fatalf("the root of an overlay without layers is an empty directory: %v %v", ents, err)
	}
}

// rows 77-82 — directive values are template text (C01.R10), quoted object keys (C14.R14), v-show through the
// shared condition evaluation (C03.R15), the LESS compiler under recover (C11.R10), string() (C11.R13),
// Pop and the map pool (C17.R16)
func TestFinding77to82_FourthBatch(t *testing.T) {
	m := map[string]any{"name": "x"}
	m["self"] = m
	data := map[string]any{"code": "secret == 'x'", "secret": "x", "wide": true, "m": m}
	for src, want := range map[string]string{
		`<p v-show="{{ code }}">a</p>`:                         `<pstyle="display:none;">a</p>`,
		`<div :class="{'md:flex': wide, plain: wide}">t</div>`: `<divclass="md:flexplain">t</div>`,
		`<div :class='{"active": wide}'>t</div>`:               `<divclass="active">t</div>`,
		`<p v-show="!missing">a</p><p v-if="!missing">b</p>`:   `<p>a</p><p>b</p>`,
		`<p>{{ string(m) + "a" }}</p>`:                         `<p>map[string]interface{}(cyclic)a</p>`,
	} {
		out, err := renderFS(t, map[string]string{"p.vuego": src}, "p.vuego", data)
		if got := strings.Join(strings.Fields(out), ""); err != nil || got != want {
			t.Errorf("%s: got %q err=%v, want %q", src, got, err, want)
		}
	}
	// a LESS source the compiler panics on: an error, not a panic
	if _, err := renderFS(t, map[string]string{"p.vuego": `<style type="text/css+less">@import "</style>`}, "p.vuego", nil, vuego.WithLessProcessor()); err == nil || strings.Contains(err.Error(), "PANIC") {
		t.Errorf("malformed LESS: err=%v, want an ordinary error", err)
	}
	// the caller's map stays the caller's
	own := map[string]any{"x": 1}
	s := vuego.NewStack(map[string]any{"x": 0})
	s.Push(own)
	s.Pop()
	if len(own) != 1 {
		t.Errorf("Pop emptied a map the caller had pushed: %v", own)
	}
	s.Push(nil)
	s.Set("y", 2)
	s.Push(own)
	s.Set("z", 3)
	s.Pop()
	if v, ok := s.Lookup("y"); !ok || v != 2 {
		t.Errorf("after pushing and popping the caller's map, y = %v %v, want 2 true", v, ok)
	}
}

// rows 83-91 — reflect preconditions that depend on the value (C11.R14: short list for an array parameter, NaN map
// key, nil function-map entry), a collection passed by pointer (C04.R12), the empty v-show (C03.R16), bound props
// that look like JSON (C05.R14), Unicode spaces in evaluated content (C02.R14), no filesystem (C11.R15)
func TestFinding83to91_FifthBatch(t *testing.T) {
	render := func(funcs vuego.FuncMap, tpl string, data any) (out string, err error) {
		defer func() {
			if r := recover(); r != nil {
				err = errors.New("PANIC: " + strings.SplitN(toString(r), "\n", 2)[0])
			}
		}()
		var buf bytes.Buffer
		err = vuego.New(vuego.WithFuncs(funcs)).Fill(data).RenderString(context.Background(), &buf, tpl)
		return strings.Join(strings.Fields(buf.String()), ""), err
	}
	funcs := vuego.FuncMap{"arr": func(a [2]int) int { return a[0] }, "nilf": nil}
	// an error, not a panic
	for _, tpl := range []string{`<p>{{ arr(xs) }}</p>`, `<p>{{ nilf() }}</p>`} {
		if _, err := render(funcs, tpl, map[string]any{"xs": []int{1}}); err == nil || strings.Contains(err.Error(), "PANIC") {
			t.Errorf("%s: err=%v, want an ordinary error", tpl, err)
		}
	}
	if out, err := render(funcs, `<p>{{ arr(xs) }}</p>`, map[string]any{"xs": []int{7, 8}}); err != nil || out != "<p>7</p>" {
		t.Errorf("a list of the right length still converts: %q %v", out, err)
	}
	// a NaN key: no panic, the other entries are rendered
	if out, err := render(nil, `<b v-for="x in m">{{ x }}</b>`, map[string]any{"m": map[float64]any{math.NaN(): 1, 2: 3}}); err != nil || out != "<b>3</b>" {
		t.Errorf("v-for over a map with a NaN key: %q %v", out, err)
	}
	for tpl, want := range map[string]string{
		`<b v-for="c in ps">{{ c }}</b><p v-else>none</p>`:       `<b>1</b><b>2</b>`,
		`<b v-for="c in pa">{{ c }}</b><p v-else>none</p>`:       `<b>1</b><b>2</b>`,
		`<b v-for="c in np">{{ c }}</b><p v-else>none</p>`:       `<p>none</p>`,
		`<p v-if="">if</p><p v-else>else</p><p v-show="">s</p>`: `<p>else</p><pstyle="display:none;">s</p>`,
	} {
		var np *[]int
		out, err := render(nil, tpl, map[string]any{"ps": &[]int{1, 2}, "pa": &[2]int{1, 2}, "np": np})
		if err != nil || out != want {
			t.Errorf("%s: got %q err=%v, want %q", tpl, out, err, want)
		}
	}
	// a bound string stays a string; JSON the template wrote itself is still decoded
	out, err := renderFS(t, map[string]string{
		"p.vuego": `<template include="c.vuego" :text="msg" :obj="o" v-bind:w="msg" lit='[1,2]'></template>`,
		"c.vuego": `<p>{{ text | type }}|{{ obj | type }}|{{ w | type }}|{{ lit | type }}|{{ obj }}</p>`,
	}, "p.vuego", map[string]any{"msg": "[1,2,3]", "o": "{}"})
	if got := strings.Join(strings.Fields(out), ""); err != nil || got != `<p>string|string|string|[]interface{}|{}</p>` {
		t.Errorf("bound props that look like JSON: %q %v", got, err)
	}
	// a no-break space is text
	if out, err := renderStr(t, `<p v-html="h"></p><i v-text="h"></i>`, map[string]any{"h": "\u00a0a\u00a0"}); err != nil || !strings.Contains(out, "<p>\u00a0a\u00a0</p>") || !strings.Contains(out, "<i>\u00a0a\u00a0</i>") {
		t.Errorf("Unicode spaces around evaluated content: %q %v", out, err)
	}
	// no filesystem: errors and no-ops, not nil-pointer panics
	func() {
		defer func() {
			if r := recover(); r != nil {
				t.Errorf("an engine without filesystem panicked: %v", r)
			}
		}()
		var buf bytes.Buffer
		if err := vuego.New(vuego.WithComponents()).RenderString(context.Background(), &buf, "<p>x</p>"); err != nil {
			t.Errorf("New(WithComponents()) without filesystem: %v", err)
		}
		if err := vuego.NewLoader(nil).Stat("a.vuego"); err == nil {
			t.Errorf("Loader.Stat without filesystem: nil error")
		}
	}()
}

// rows 93-96, 100, 101 — commas and semicolons inside brackets (C14.R16), typed nil pointers (C03.R17), white space
// around a plain name (C17.R17), the fallback children of v-html / v-text (C16.R12), typed maps as root data (C08.R14)
func TestFinding93to101_SixthBatch(t *testing.T) {
	var np *int
	data := map[string]any{"x": "hello", "wide": true, "off": false, "list": []any{"a", "b"}, "np": np, "xs": []int{1, 2}}
	for src, want := range map[string]string{
		`<div :class="{a: len(list) > 1, c: x in ['hello', 'y'], d: wide}">t</div>`:                               `<divclass="acd">t</div>`,
		`<div style="background:url(data:image/png;base64,AAAA)" :style="{color:'red'}">t</div>`:                  `<divstyle="background:url(data:image/png;base64,AAAA);color:red;">t</div>`,
		`<div style="background:url(data:image/png;base64,AAAA)" v-show="off">t</div>`:                            `<divstyle="background:url(data:image/png;base64,AAAA);display:none;">t</div>`,
		`<p v-if="np">if</p><p v-else>else</p><p v-show="np">s</p><input :title="np"><i :class="{on: np}">c</i>`: `<p>else</p><pstyle="display:none;">s</p><input></input><i>c</i>`,
		`<div v-for="i in xs" v-html="missing"><style v-once>.a{}</style><b v-if="off">{{ x }}</b></div>`:        `<div><style>.a{}</style></div><div></div>`,
		`<div v-text="missing">fallback {{ x }}</div>`:                                                            `<div>fallbackhello</div>`,
	} {
		out, err := renderFS(t, map[string]string{"p.vuego": src}, "p.vuego", data)
		if got := strings.Join(strings.Fields(out), ""); err != nil || got != want {
			t.Errorf("%s: got %q err=%v, want %q", src, got, err, want)
		}
	}
	s := vuego.NewStack(map[string]any{"n": 1, "xs": []any{0, 1}})
	if v, ok := s.Resolve(" n "); !ok || v != 1 {
		t.Errorf("Resolve(\" n \") = %v %v, want 1 true", v, ok)
	}
	if v, ok := s.Resolve(" xs[1] "); !ok || v != 1 {
		t.Errorf("Resolve(\" xs[1] \") = %v %v, want 1 true", v, ok)
	}
	// a typed and a named map as data: above theme.yml, visible to expressions inside loops
	type H map[string]any
	files := map[string]string{"theme.yml": "title: theme\nonly: theme-only\n", "page.vuego": `<p>[{{ title }}][{{ only }}]<b v-if="title == 'filled'">if</b></p><li v-for="x in xs" v-if="x > lim">{{ x }}</li>`}
	for name, d := range map[string]any{"map[string]string": map[string]string{"title": "filled"}, "named": H{"title": "filled", "xs": []int{1, 2, 3}, "lim": 1}} {
		out, err := renderFS(t, files, "page.vuego", d)
		got := strings.Join(strings.Fields(out), "")
		if err != nil || !strings.HasPrefix(got, "<p>[filled][theme-only]<b>if</b></p>") {
			t.Errorf("%s as data: got %q err=%v", name, got, err)
		}
		if name == "named" && !strings.HasSuffix(got, "<li>2</li><li>3</li>") {
			t.Errorf("%s as data, per-item expression: got %q", name, got)
		}
	}
}

// row 101 — C10.R10: the evaluator's map builtins enumerate in key order
func TestFinding101_MapBuiltinsAreDeterministic(t *testing.T) {
	data := map[string]any{"m": map[string]any{"a": 1, "b": 2, "c": 3, "d": 4, "e": 5, "f": 6, "g": 7}}
	seen := map[string]bool{}
	for i := 0; i < 30; i++ {
		out, err := renderStr(t, `<p>{{ "" + join(keys(m), ",") }}</p><i v-if="keys(m)[0] == 'a'">a first</i><p>{{ "" + string(values(m)) }}</p><p>{{ "" + string(toPairs(m)) }}</p>`, data)
		if err != nil {
			t.Fatal(err)
		}
		seen[out] = true
	}
	if len(seen) != 1 {
		t.Errorf("%d distinct outputs in 30 renders of the same template and data", len(seen))
	}
	for out := range seen {
		if !strings.Contains(out, "<p>a,b,c,d,e,f,g</p>") || !strings.Contains(out, "a first") {
			t.Errorf("not in key order: %q", out)
		}
	}
}

type selfPointer *selfPointer

// rows 102-106 — a bound attribute named like a directive (C01.R11), a stray }} (C02.R16), a function whose only
// result is an error and a float32 argument (C13.R26), self-referential pointers (C11.R17)
func TestFinding102to106_SeventhBatch(t *testing.T) {
	var p selfPointer
	p = &p
	funcs := vuego.FuncMap{"check": func(s string) error {
		if s == "bad" {
			return errors.New("check failed")
		}
		return nil
	}, "show": func(s string) string { return s }}
	run := func(tpl string, data any) (string, error) {
		done := make(chan struct{})
		var out string
		var err error
		go func() {
			defer close(done)
			var buf bytes.Buffer
			err = vuego.New(vuego.WithFuncs(funcs)).Fill(data).RenderString(context.Background(), &buf, tpl)
			out = strings.Join(strings.Fields(buf.String()), "")
		}()
		select {
		case <-done:
		case <-time.After(5 * time.Second):
			return "", errors.New("DID NOT RETURN")
		}
		return out, err
	}
	// the data value of :v-show is never evaluated: both values give the same element
	a, err1 := run(`<p :v-show="x">a</p>`, map[string]any{"x": "secret == 'TOPSECRET'", "secret": "TOPSECRET"})
	b, err2 := run(`<p :v-show="x">a</p>`, map[string]any{"x": "word", "secret": "TOPSECRET"})
	if err1 != nil || err2 != nil || a != b {
		t.Errorf(":v-show with a data value: %q %v vs %q %v", a, err1, b, err2)
	}
	if out, err := run(`<p>{{ x }} }}</p><b title="{{ x }} }}">b</b>`, map[string]any{"x": "V"}); err != nil || out != `<p>V}}</p><btitle="V}}">b</b>` {
		t.Errorf("stray closer: %q %v", out, err)
	}
	if out, err := run(`<p>[{{ check("ok") }}]</p>`, nil); err != nil || out != "<p>[]</p>" {
		t.Errorf("error-only function, success: %q %v", out, err)
	}
	if _, err := run(`<p>{{ check("bad") }}</p>`, nil); err == nil || !strings.Contains(err.Error(), "check") {
		t.Errorf("error-only function, failure: err=%v, want an error that names check", err)
	}
	if out, err := run(`<p>{{ show(f) }}</p>`, map[string]any{"f": float32(0.1)}); err != nil || out != "<p>0.1</p>" {
		t.Errorf("float32 argument: %q %v", out, err)
	}
	if _, err := run(`<p v-for="x in p">{{ x }}</p><i>{{ p.name }}</i>`, map[string]any{"p": p}); err != nil {
		t.Errorf("self-referential pointer: %v", err)
	}
}

// rows 107-111 — a typed nil *SlotScope in the data (C11.R18), GetString of a nil pointer Stringer (C11.R19), root data
// that is a pointer to a map (C17.R19), a nested struct without exported fields (C17.R20), pointer keys that reach
// cyclic data (C11.R11)
type f8Stringer struct{ N int }

func (s f8Stringer) String() string { return "S" }

type f8Root struct {
	Title   string    `json:"title"`
	Created time.Time `json:"created"`
}

type f8Key struct {
	Name string
	M    map[string]any
}

func TestFinding107to111_EighthBatch(t *testing.T) {
	render := func(v vuego.Template, tpl string, data any) (out string, err error) {
		defer func() {
			if r := recover(); r != nil {
				err = fmt.Errorf("PANIC: %v", r)
			}
		}()
		var buf bytes.Buffer
		err = v.Fill(data).RenderString(context.Background(), &buf, tpl)
		return strings.Join(strings.Fields(buf.String()), " "), err
	}
	// 107: a typed nil pointer under the reserved key is not a slot scope
	nilScope := map[string]any{"__slotScope__": (*vuego.SlotScope)(nil)}
	if out, err := render(vuego.New(), `<div><slot>fb</slot></div>`, nilScope); err != nil || !strings.Contains(out, "fb") {
		t.Errorf("nil *SlotScope, <slot>: %q %v", out, err)
	}
	fsys := fstest.MapFS{"c.vuego": {Data: []byte("<b>c</b>")}}
	if out, err := render(vuego.NewFS(fsys), `<template include="c.vuego"></template>`, nilScope); err != nil || !strings.Contains(out, "<b>c</b>") {
		t.Errorf("nil *SlotScope, include: %q %v", out, err)
	}
	// 108: GetString of a nil pointer whose type has a value-receiver String method
	func() {
		defer func() {
			if r := recover(); r != nil {
				t.Errorf("GetString panicked: %v", r)
			}
		}()
		s := vuego.NewStackWithData(map[string]any{"np": (*f8Stringer)(nil), "sp": &f8Stringer{1}}, nil)
		if got, ok := s.GetString("sp"); !ok || got != "S" {
			t.Errorf("GetString(sp) = %q %v", got, ok)
		}
		s.GetString("np")
	}()
	// 109: &map as root data: v-if sees what {{ }} prints
	m := map[string]any{"flag": true}
	if out, err := render(vuego.New(), `<p v-if="flag">if</p><p v-else>else</p><i>{{ flag }}</i>`, &m); err != nil || !strings.Contains(out, "<p>if</p>") || !strings.Contains(out, "<i>true</i>") {
		t.Errorf("pointer to map as root data: %q %v", out, err)
	}
	// 110: a time.Time field of a struct root keeps its value
	tm := time.Date(2024, 3, 5, 0, 0, 0, 0, time.UTC)
	if out, err := render(vuego.New(), `<p>{{ created | formatTime("2006") }}</p>`, f8Root{Title: "T", Created: tm}); err != nil || !strings.Contains(out, "<p>2024</p>") {
		t.Errorf("time.Time field of a struct root: %q %v", out, err)
	}
	// 111: two pointer keys that reach a map containing itself: the keys are ordered without walking the cycle
	cyc := map[string]any{}
	cyc["self"] = cyc
	mm := map[*f8Key]int{{Name: "a", M: cyc}: 1, {Name: "b", M: cyc}: 2}
	done := make(chan string, 1)
	go func() {
		debug.SetMaxStack(64 << 20)
		out, err := render(vuego.New(), `<p v-for="x in mm">{{ x }}</p>`, map[string]any{"mm": mm})
		done <- fmt.Sprint(out, err)
	}()
	select {
	case got := <-done:
		if !strings.Contains(got, "<p>1</p>") || !strings.Contains(got, "<p>2</p>") {
			t.Errorf("pointer keys over cyclic data: %s", got)
		}
	case <-time.After(20 * time.Second):
		t.Errorf("pointer keys over cyclic data: did not return")
	}
}

// row 112 — C13.R27: an evaluated :style value keeps the quotes it contains
func TestFinding112_StyleValueKeepsItsQuotes(t *testing.T) {
	var buf bytes.Buffer
	err := vuego.New().Fill(map[string]any{"ff": "'Fira Code', monospace"}).RenderString(context.Background(), &buf, `<p :style="{fontFamily: ff, color: 'red'}">t</p>`)
	got := html.UnescapeString(buf.String())
	if err != nil || !strings.Contains(got, "font-family:'Fira Code', monospace;") || !strings.Contains(got, "color:red;") {
		t.Errorf("style value with quotes: %q %v", got, err)
	}
}

// row 114 — C10.R12: map keys that print alike have one order
func TestFinding114_KeysThatPrintAlikeHaveOneOrder(t *testing.T) {
	seen := map[string]bool{}
	for i := 0; i < 60; i++ {
		var buf bytes.Buffer
		data := map[string]any{"m": map[any]any{1: "int", "1": "str", int64(1): "i64", 1.0: "f"}}
		if err := vuego.New().Fill(data).RenderString(context.Background(), &buf, `<li v-for="v in m">{{ v }}</li>`); err != nil {
			t.Fatal(err)
		}
		seen[buf.String()] = true
	}
	if len(seen) != 1 {
		t.Errorf("%d distinct outputs for one input", len(seen))
	}
}

// row 115 — C11.R23: struct data that shares substructure is converted in linear time
type f115N struct {
	Name        string
	Left, Right *f115N
}

func TestFinding115_SharedSubstructureIsConvertedOnce(t *testing.T) {
	var next *f115N
	for i := 0; i < 40; i++ {
		next = &f115N{Name: "n", Left: next, Right: next}
	}
	done := make(chan string, 1)
	go func() {
		var buf bytes.Buffer
		err := vuego.New().Fill(next).RenderString(context.Background(), &buf, `<p>{{ Name }} {{ Left.Right.Name }}</p>`)
		done <- fmt.Sprint(buf.String(), err)
	}()
	select {
	case got := <-done:
		if !strings.Contains(got, "<p>n n</p>") {
			t.Errorf("shared substructure: %s", got)
		}
	case <-time.After(20 * time.Second):
		t.Errorf("shared substructure: did not return within 20s")
	}
}

// rows 116, 117 — C13.R28: a nil pointer in the error result is no error; C13.R29: a number that does not fit the parameter
type f116Err struct{}

func (*f116Err) Error() string { return "myerr" }

func TestFinding116_117_ErrorPointerAndOverflow(t *testing.T) {
	funcs := vuego.FuncMap{
		"okfn": func(s string) (string, *f116Err) { return "fine:" + s, nil },
		"i8":   func(n int8) int8 { return n },
	}
	render := func(tpl string) (string, error) {
		var buf bytes.Buffer
		err := vuego.New(vuego.WithFuncs(funcs)).Fill(map[string]any{"name": "a", "n": 300, "s": "300", "small": 100}).RenderString(context.Background(), &buf, tpl)
		return buf.String(), err
	}
	if out, err := render(`<p>[{{ name | okfn }}]</p>`); err != nil || !strings.Contains(out, "[fine:a]") {
		t.Errorf("nil *f116Err result: %q %v", out, err)
	}
	for _, tpl := range []string{`<p>{{ n | i8 }}</p>`, `<p>{{ s | i8 }}</p>`} {
		if out, err := render(tpl); err == nil {
			t.Errorf("%s: wrapped around instead of failing: %q", tpl, out)
		}
	}
	if out, err := render(`<p>{{ small | i8 }}</p>`); err != nil || !strings.Contains(out, "<p>100</p>") {
		t.Errorf("a number that fits: %q %v", out, err)
	}
}

// row 118 — C17.R23: a struct and its first field share an address
type f118B struct {
	Name string `json:"name"`
}
type f118C struct {
	B f118B  `json:"b"`
	X string `json:"x"`
}
type f118A struct {
	C  *f118C `json:"c"`
	PB *f118B `json:"pb"`
}
type f118Outer struct {
	Inner f118B  `json:"inner"`
	First *f118B `json:"first"`
}

func TestFinding118_AStructAndItsFirstFieldShareAnAddress(t *testing.T) {
	a := f118A{C: &f118C{B: f118B{Name: "bob"}, X: "x"}}
	a.PB = &a.C.B
	var buf bytes.Buffer
	if err := vuego.New().Fill(a).RenderString(context.Background(), &buf, `<p>[{{ c.b.name }}][{{ c.x }}][{{ pb.name }}][{{ pb.x }}]</p>`); err != nil || !strings.Contains(buf.String(), "[bob][x][bob][]") {
		t.Errorf("two pointers of two types to one address: %q %v", buf.String(), err)
	}
	o := &f118Outer{Inner: f118B{Name: "bob"}}
	o.First = &o.Inner
	buf.Reset()
	if err := vuego.New().Fill(o).RenderString(context.Background(), &buf, `<p>[{{ inner.name }}][{{ first.name }}]</p>`); err != nil || !strings.Contains(buf.String(), "[bob][bob]") {
		t.Errorf("a pointer to the struct's first field: %q %v", buf.String(), err)
	}
}

// Row 119: the caller's map was
// kept as the lookup fallback; a key added after Fill was seen by {{ }}, :attr and Get and not by v-if.
func TestFinding119_AMapIsNotKeptAsTheLookupFallback(t *testing.T) {
	m := map[string]any{"a": "1"}
	tpl := vuego.New().Fill(m)
	m["late"] = "x"
	var buf bytes.Buffer
	if err := tpl.RenderString(context.Background(), &buf, `<p>[{{ late }}][{{ a }}]</p><b v-if="late">y</b><i :x="late"></i>`); err != nil {
		t.Fatal(err)
	}
	out := buf.String()
	sawText := strings.Contains(out, "[x]")
	sawIf := strings.Contains(out, "<b>y</b>")
	sawAttr := strings.Contains(out, `x="x"`)
	if sawText != sawIf || sawText != sawAttr || (tpl.Get("late") != "") != sawText {
		t.Errorf("the read positions disagree about a key that was added after Fill: text=%v v-if=%v attr=%v Get=%q in %q", sawText, sawIf, sawAttr, tpl.Get("late"), out)
	}
	if !strings.Contains(out, "[1]") {
		t.Errorf("the value given to Fill is gone: %q", out)
	}
	// a struct keeps its field fallback
	type page struct{ Title string }
	buf.Reset()
	if err := vuego.New().Fill(&page{Title: "T"}).RenderString(context.Background(), &buf, `<p>{{ Title }}</p>`); err != nil || !strings.Contains(buf.String(), "<p>T</p>") {
		t.Errorf("struct field fallback: %q %v", buf.String(), err)
	}
}
