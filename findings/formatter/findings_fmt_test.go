// Demonstrations for the formatter defects (rows 36-39); copy to formatter/ of a scratch worktree and run
//
//	go test -run 'TestFinding' -count=1 ./formatter
package formatter_test

import (
	"strings"
	"testing"

	"github.com/titpetric/vuego/formatter"
)

func formatTwice(t *testing.T, src string) (string, string) {
	t.Helper()
	f := formatter.NewFormatter()
	o1, err := f.Format(src)
	if err != nil {
		t.Fatalf("format %q: %v", src, err)
	}
	o2, err := f.Format(o1)
	if err != nil {
		t.Fatalf("format %q: %v", o1, err)
	}
	return o1, o2
}

// rows 35/36 — C02.R7: attribute namespace prefix
func TestFinding36_FormatterKeepsAttributeNamespace(t *testing.T) {
	o1, _ := formatTwice(t, `<svg><use xlink:href="#a"></use></svg>`)
	if want := "<svg>\n  <use xlink:href=\"#a\"></use>\n</svg>\n"; o1 != want {
		t.Fatalf("got %q want %q", o1, want)
	}
}

// row 37 — C19.R9: lower-case doctype
func TestFinding37_LowerCaseDoctypeIsADocument(t *testing.T) {
	o1, o2 := formatTwice(t, "<!doctype html>\n<html><head><title>x</title></head><body><p>a</p></body></html>")
	want := "<!doctype html>\n<html>\n  <head>\n    <title>x</title>\n  </head>\n  <body>\n    <p>a</p>\n  </body>\n</html>\n"
	if o1 != want || o2 != o1 {
		t.Fatalf("got %q then %q, want %q", o1, o2, want)
	}
}

// row 38 — C19.R10: verbatim content
func TestFinding38_PreAndTextareaContentSurvive(t *testing.T) {
	for _, src := range []string{"<pre>\n\nfoo</pre>", "<textarea>\n\nfoo  bar\n baz</textarea>"} {
		o1, o2 := formatTwice(t, src)
		if o1 != src+"\n" || o2 != o1 {
			t.Errorf("%q: got %q then %q", src, o1, o2)
		}
	}
}

// row 39 — C19.R11: markup-like operators inside {{ }}
func TestFinding39_MustacheOperatorsStayText(t *testing.T) {
	o1, o2 := formatTwice(t, "<p>{{ a &lt;b }}</p>")
	if o1 != "<p>{{ a &lt;b }}</p>\n" || o2 != o1 {
		t.Fatalf("got %q then %q", o1, o2)
	}
	o1, o2 = formatTwice(t, "<p>{{ a &lt; b && c }}</p>")
	if o1 != "<p>{{ a < b && c }}</p>\n" || o2 != o1 {
		t.Fatalf("readable operators: got %q then %q", o1, o2)
	}
}

// rows 46 (formatter half) and 58 — C02.R9 / C19.R12
func TestFinding46and58_NbspAndBlankAttribute(t *testing.T) {
	o1, o2 := formatTwice(t, "<p>a&nbsp;b</p>")
	if o1 != "<p>a b</p>\n" || o2 != o1 {
		t.Fatalf("nbsp: got %q then %q", o1, o2)
	}
	o1, o2 = formatTwice(t, `<div class=" ">x</div>`)
	if o2 != o1 {
		t.Fatalf("blank attribute: got %q then %q", o1, o2)
	}
}

// row 69 — C19.R14 / C02.R11: raw-text elements and <noscript>
func TestFinding69_RawTextAndNoscriptAreStable(t *testing.T) {
	for _, src := range []string{
		"<div><noscript><img src=\"a.png\"></noscript></div>\n",
		"<div><iframe src=\"x\">fallback <b>text</b></iframe></div>\n",
		"<div><xmp><b>raw</b></xmp><noembed><p>x</p></noembed></div>\n",
	} {
		o1, o2 := formatTwice(t, src)
		if o1 != o2 {
			t.Errorf("%q: not idempotent\n 1: %q\n 2: %q", src, o1, o2)
		}
		if strings.Contains(o1, "&lt;") {
			t.Errorf("%q: markup inside was escaped: %q", src, o1)
		}
	}
}

// rows 97-99 — C19.R18: raw text and leading newlines inside <pre>; <html as a tag-name prefix
func TestFinding97to99_InsidePreAndHTMLPrefix(t *testing.T) {
	for _, src := range []string{
		"<pre>x<script>if (a<b) {}</script></pre>",
		"<pre>a<style>b > c &amp; d</style></pre>",
		"<pre><textarea>\n\nfoo</textarea></pre>",
	} {
		o1, o2 := formatTwice(t, src)
		if o1 != o2 {
			t.Errorf("%q: not idempotent\n 1: %q\n 2: %q", src, o1, o2)
		}
		if strings.Contains(o1, "&lt;") || strings.Contains(o1, "&amp;amp;") {
			t.Errorf("%q: raw text inside <pre> was escaped: %q", src, o1)
		}
	}
	if o1, _ := formatTwice(t, "<pre><textarea>\n\nfoo</textarea></pre>"); !strings.Contains(o1, "<textarea>\n\nfoo") {
		t.Errorf("nested textarea lost a leading newline: %q", o1)
	}
	for _, src := range []string{"<html-viewer>x</html-viewer>", `<htmlx-el a="1">x</htmlx-el>`} {
		if o1, _ := formatTwice(t, src); strings.Contains(o1, "<body>") || strings.Contains(o1, "<head>") {
			t.Errorf("%q was taken for a document: %q", src, o1)
		}
	}
	if o1, _ := formatTwice(t, "<html lang=en><body><p>x</p></body></html>"); !strings.Contains(o1, `<html lang="en">`) {
		t.Errorf("a document is still a document: %q", o1)
	}
}

// row 113 — C19.R20: a no-break space at the edge of an attribute value is part of the value
func TestFinding113_NoBreakSpaceAtTheEdgeOfAnAttributeValue(t *testing.T) {
	o1, o2 := formatTwice(t, "<p title=\" x \">t</p>\n")
	if !strings.Contains(o1, "title=\" x \"") && !strings.Contains(o1, "title=\"&nbsp;x&nbsp;\"") {
		t.Errorf("the no-break spaces of the title are gone: %q", o1)
	}
	if o1 != o2 {
		t.Errorf("not idempotent: %q / %q", o1, o2)
	}
}
