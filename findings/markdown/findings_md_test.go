// Demonstrations for the markdown package (copy to markdown/ in a scratch worktree; see ../findings_test.go).
package markdown_test

import (
	"bytes"
	"strings"
	"testing"
	"testing/fstest"

	"github.com/titpetric/vuego/markdown"
)

// row 30 — C20.R8 (found by the rule while it was written for a seeded change): destinations, titles and
// alt text were handed to the templates unresolved
func TestFinding30_LinkAndImageTextIsResolved(t *testing.T) {
	md := markdown.New(fstest.MapFS{})
	var buf bytes.Buffer
	if err := md.RenderBytes(&buf, []byte("![a &amp; b \\* c](x.png \"t &amp; u\")\n\n[l](http://x/?a=1&amp;b=2)\n")); err != nil {
		t.Fatal(err)
	}
	out := buf.String()
	for _, want := range []string{`alt="a &amp; b * c"`, `title="t &amp; u"`, `href="http://x/?a=1&amp;b=2"`} {
		if !strings.Contains(out, want) {
			t.Fatalf("want %s in %s", want, out)
		}
	}
}

// row 44 — C20.R10: the closing line of an HTML block
func TestFinding44_HTMLBlockClosingLine(t *testing.T) {
	var buf bytes.Buffer
	if err := markdown.New(fstest.MapFS{}).RenderBytes(&buf, []byte("<script>\nfoo\n</script>\n\npara")); err != nil || !strings.Contains(buf.String(), "</script>") || !strings.Contains(buf.String(), "<p>para</p>") {
		t.Fatalf("got %q err=%v", buf.String(), err)
	}
}

// row 70 — C20.R14: values that are falsy as template values
func TestFinding70_FalsyDocumentValuesAreWritten(t *testing.T) {
	for src, want := range map[string]string{
		"0. zero\n1. one\n":            `<ol start="0">`,
		"```false\nx\n```\n":           `class="language-false"`,
		"[x](false) [y]()\n":           `<a href="false">x</a>`,
		"![](a.png) ![false](b.png)\n": `alt="false"`,
		"[y]()\n":                      `<a href="">y</a>`,
		"![](a.png)\n":                 `alt=""`,
	} {
		var buf bytes.Buffer
		if err := markdown.New(fstest.MapFS{}).RenderBytes(&buf, []byte(src)); err != nil || !strings.Contains(buf.String(), want) {
			t.Errorf("%q: got %q err=%v, want %s in it", src, buf.String(), err, want)
		}
	}
}

// rows 89, 90 — C20.R8 (the info string of a fenced code block is text), C11.R15 (Load without content filesystem)
func TestFinding89and90_InfoStringAndLoadWithoutFS(t *testing.T) {
	for src, want := range map[string]string{
		"```a&amp;b\ncode\n```\n": `class="language-a&amp;b"`,
		"```a\\*b\ncode\n```\n":   `class="language-a*b"`,
	} {
		var buf bytes.Buffer
		if err := markdown.New(nil).RenderBytes(&buf, []byte(src)); err != nil || !strings.Contains(buf.String(), want) {
			t.Errorf("%q: got %q err=%v, want %s in it", src, buf.String(), err, want)
		}
	}
	func() {
		defer func() {
			if r := recover(); r != nil {
				t.Errorf("Load on a renderer without content filesystem panicked: %v", r)
			}
		}()
		if _, err := markdown.New(nil).Load("a.md"); err == nil {
			t.Errorf("Load without content filesystem: nil error")
		}
	}()
}
