// Demonstrations for the markdown package (copy to markdown/ in a scratch worktree; see ../findings_test.go).
package markdown_test

import (
	"bytes"
	"strings"
	"testing"
	"testing/fstest"

	"github.com/titpetric/vuego/markdown"
)

// row 30 — C20.R8 (found by the rule while it was written for a seeded change): destinations, titles and
// alt text were handed to the templates unresolved
func TestFinding30_LinkAndImageTextIsResolved(t *testing.T) {
	md := markdown.New(fstest.MapFS{})
	var buf bytes.Buffer
	if err := md.RenderBytes(&buf, []byte("![a &amp; b \\* c](x.png \"t &amp; u\")\n\n[l](http://x/?a=1&amp;b=2)\n")); err != nil {
		t.Fatal(err)
	}
	out := buf.String()
	for _, want := range []string{`alt="a &amp; b * c"`, `title="t &amp; u"`, `href="http://x/?a=1&amp;b=2"`} {
		if !strings.Contains(out, want) {
			t.Fatalf("want %s in %s", want, out)
		}
	}
}
